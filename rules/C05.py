"""C05 — encoding accepts exactly the alphabet and is identical on every backend."""
from lm.db import short
from lm import tables, expr as X
from . import common

LEVEL_NOTE = ('decides: exhaustive alphabet tables (256 bytes x alphabets), per-lane semantics of the SIMD encoders (lane engine), encoder structure (error must-pass-through, '
              'first-offender rescan, tail hand-off, select-chain lock-step), dispatcher arms. Trusted: rustc MIR, intrinsic semantics table.')


def r51_tables(db, ctx):
    ctx.rule('R5.1', 'alphabet tables tabulated exhaustively: from_ascii over 256 bytes is the inverse of as_ascii on '
                     'upper-case letters and Err(InvalidSymbol(byte)) elsewhere; symbols()/as_str()/as_index agree; default symbol is last')
    alphs = common.alphabets(db)
    ctx.floor('R5.1', len(alphs), 2, 'impl Alphabet')
    for a in alphs:
        nm = a['name']
        need = ['symbol_ty', 'K', 'symbols_fn', 'as_str_fn', 'as_index', 'as_ascii', 'from_ascii', 'adt']
        miss = [k for k in need if not a.get(k)]
        if miss:
            ctx.fail('R5.1', nm, 'alphabet-pieces', f'reason=anchor-missing: cannot resolve {miss} for alphabet {nm}')
            continue
        K = a['K']
        var, dflt = common.variants(a['adt'])
        try:
            # as_index: must be `*self as usize` i.e. cast(discr(self))
            ai = common.return_expr_single_path(a['as_index'])
            e = ai
            ok = e is not None and e[0] == 'cast' and common.is_self_discr(e[1])
            if ok:
                ctx.ok('R5.1', a['as_index'], 'as_index = discriminant', ['enum discriminants ' + str(var)])
            else:
                ctx.fail('R5.1', a['as_index'], 'as_index body', f'as_index is not the discriminant of self: {X.show(ai) if ai else None}')
                continue
            index_of = dict(var)
            # as_ascii table
            t = tables.decision_table(a['as_ascii'])
            by_discr = tables.fold_over_domain(t, common.is_self_discr, sorted(var.values()))
            ascii_of = {}
            for vname, d in var.items():
                r = by_discr.get(d)
                if r is None or r[0] != 'k' or not isinstance(r[1], int):
                    ctx.fail('R5.1', a['as_ascii'], f'as_ascii({vname})', f'no constant byte returned: {r}')
                else:
                    ascii_of[vname] = r[1]
            # (b) upper-case letters, distinct
            bad = [v for v, b in ascii_of.items() if not (65 <= b <= 90)]
            if bad:
                ctx.fail('R5.1', a['as_ascii'], 'as_ascii range', f'symbols {bad} are not upper-case ASCII letters')
            if len(set(ascii_of.values())) != len(ascii_of):
                ctx.fail('R5.1', a['as_ascii'], 'as_ascii distinct', 'two symbols share a letter')
            else:
                ctx.ok('R5.1', a['as_ascii'], f'{len(ascii_of)} letters upper-case and pairwise distinct', [str(ascii_of)])
            # (a) from_ascii over all 256 bytes
            t = tables.decision_table(a['from_ascii'])
            tab = tables.fold_over_domain(t, lambda e: common.is_param(e, 1), range(256))
            inv = {b: v for v, b in ascii_of.items()}
            nbad = 0
            for b in range(256):
                r = tab[b]
                ev = tables.enum_variant(r) if r else None
                want = inv.get(b)
                if want is not None:
                    good = ev and ev[1] == 'Ok' and tables.enum_variant(ev[2][0]) and tables.enum_variant(ev[2][0])[1] == want \
                        and tables.enum_variant(ev[2][0])[0] == short(a['symbol_ty'])
                    if not good:
                        nbad += 1
                        ctx.fail('R5.1', a['from_ascii'], f'from_ascii({b}={chr(b)!r})', f'expected Ok({want}), table gives {X.show(r) if r else None}')
                else:
                    good = False
                    if ev and ev[1] == 'Err':
                        inner = tables.enum_variant(ev[2][0])
                        if inner and inner[0].endswith('InvalidSymbol'):
                            c = inner[2][0]
                            good = c[0] == 'cast' and c[2] == 'char' and common.is_param(c[1], 1)
                    if not good:
                        nbad += 1
                        if nbad <= 6:
                            ctx.fail('R5.1', a['from_ascii'], f'from_ascii({b}={chr(b)!r})',
                                     f'byte is not a symbol letter: expected Err(InvalidSymbol(byte as char)), table gives {X.show(r) if r else None}')
            if nbad == 0:
                ctx.ok('R5.1', a['from_ascii'], 'from_ascii: 256-entry table is the exact inverse of as_ascii',
                       [f'{len(inv)} accepted bytes', '256 cells'])
            # (c) symbols(), as_str(), K
            se = common.return_expr_single_path(a['symbols_fn'])
            arr = None
            for x in X.walk(se):
                if x[0] == 'promoted':
                    arr = tables.promoted_array(db, a['symbols_fn'].path, x[2])
            if arr is None:
                ctx.fail('R5.1', a['symbols_fn'], 'symbols()', f'cannot read the constant array: {X.show(se)}')
                continue
            names = []
            for el in arr:
                ev = tables.enum_variant(el)
                names.append(ev[1] if ev else None)
            s = common.str_const(common.return_expr_single_path(a['as_str_fn']))
            okc = True
            if len(names) != K or s is None or len(s) != K or len(var) != K:
                okc = False
                ctx.fail('R5.1', a['symbols_fn'], 'table lengths', f'K={K}, |symbols()|={len(names)}, |as_str()|={len(s) if s else None}, |variants|={len(var)}')
            else:
                for k, vn in enumerate(names):
                    if index_of.get(vn) != k:
                        okc = False
                        ctx.fail('R5.1', a['symbols_fn'], f'symbols()[{k}]', f'symbols()[{k}] = {vn} whose as_index is {index_of.get(vn)} (matrix columns would be permuted)')
                    if ascii_of.get(vn) != ord(s[k]):
                        okc = False
                        ctx.fail('R5.1', a['as_str_fn'], f'as_str()[{k}]', f"as_str()[{k}] = {s[k]!r} but symbols()[{k}] = {vn} has letter {chr(ascii_of.get(vn, 63))!r}")
            if okc:
                ctx.ok('R5.1', a['symbols_fn'], 'symbols()[k].as_index()==k, as_str()[k]==as_ascii(symbols()[k]), len==K', [f'K={K}', s])
            # (d) default symbol last
            if dflt is None or index_of.get(dflt) != K - 1:
                ctx.fail('R5.1', nm, 'default symbol', f'#[default] variant {dflt} has index {index_of.get(dflt)}, expected K-1={K - 1}')
            else:
                ctx.ok('R5.1', nm, f'default symbol {dflt} is the last column (K-1={K - 1})', ['#[default] attribute', 'discriminant'])
        except tables.NotTabulable as e:
            ctx.fail('R5.1', nm, 'tabulation', f'reason=unrecognised-shape: {e}')
    # (e) from_char
    fc = [f for f in db.by_short.get('lightmotif::abc::Symbol::from_char', [])]
    ctx.floor('R5.1e', len(fc), 1, 'Symbol::from_char default body')
    for f in fc:
        try:
            t = tables.decision_table(f, allow_calls=('is_ascii', 'from_ascii'))
        except tables.NotTabulable as e:
            ctx.fail('R5.1e', f, 'from_char', f'reason=unrecognised-shape: {e}')
            continue
        good = True
        why = []
        for cons, r in t:
            # one test: is_ascii(param)
            if len(cons) != 1 or cons[0][0][0] != 'call' or not cons[0][0][1].endswith('is_ascii'):
                good = False
                why.append(f'unexpected guard {cons}')
                continue
            is_true = (cons[0][1] == ('notin', [0])) or (cons[0][1][0] == 'eq' and cons[0][1][1] != 0)
            if is_true:
                if not (r[0] == 'call' and r[1].endswith('from_ascii') and r[2][0][0] == 'cast' and common.is_param(r[2][0][1], 1)):
                    good = False
                    why.append(f'ascii side returns {X.show(r)}')
            else:
                ev = tables.enum_variant(r)
                if not (ev and ev[1] == 'Err'):
                    good = False
                    why.append(f'non-ascii side returns {X.show(r)}')
        if good and len(t) == 2:
            ctx.ok('R5.1e', f, 'from_char rejects non-ASCII before narrowing to u8', ['guard is_ascii(c)'])
        else:
            ctx.fail('R5.1e', f, 'from_char', '; '.join(why) or f'{len(t)} paths')


def r57(db, ctx):
    ctx.rule('R5.7', 'text entry points hand the whole input to the encoder: FromStr::from_str(s) is Self::encode(s) and EncodedSequence::encode(s) is '
                     'Pipeline::dispatch().encode(s.as_ref()) — nothing is trimmed, skipped or normalised on the way')
    n = 0
    fs = [f for f in db.fns.values() if f.path.startswith('<lightmotif::seq::EncodedSequence<A> as core::str::traits::FromStr>::from_str') and not f.promoted_of and f.kind == 'AssocFn']
    for f in fs:
        if common.forwards(db, ctx, 'R5.7', f, ['EncodedSequence::encode'], {0: ('p', 1)}, 'from_str -> encode'):
            n += 1
    gs = [f for f in db.fns.values() if f.path.startswith('lightmotif::seq::EncodedSequence::') and f.name == 'encode' and not f.promoted_of and f.kind == 'AssocFn']
    for f in gs:
        if common.forwards(db, ctx, 'R5.7', f, ['Encode::encode'], {1: ('p', 1)}, 'EncodedSequence::encode -> Pipeline::encode'):
            n += 1
    ctx.floor('R5.7', n, 2, 'text entry points forwarding their whole input')


def run(db, ctx):
    r57(db, ctx)
    r51_tables(db, ctx)


# ---------------------------------------------------------------------------
# R5.2 - R5.6: the encoders

from lm import lanes as LN, guards as G
from lm.lanes import Vec, Ptr
from lm.match import norm, m
from . import kernels as KN

ENCODERS = [('lightmotif::pli::platform::avx2::encode_into_avx2', 32), ('lightmotif::pli::platform::sse2::encode_into_sse2', 16)]


def r52(db, ctx):
    ctx.rule('R5.2', 'SIMD encoders, per byte lane: encoded = a for the a < K with letter == as_str()[a] (index and letter in lock-step over a in 0..K), '
                     'unknown stays all-ones iff no letter matched, error |= unknown every block, the block is stored at the same offset it was loaded from')
    n = 0
    for path, W in ENCODERS:
        f, E, err = KN.evaluate(db, path)
        if E is None:
            ctx.fail('R5.2', f, 'lane evaluation', f'reason=unrecognised-shape: {err}')
            continue
        blocks = [H for H, L in E.loops.items() if not L.opaque and L.inner and any(a.kind == 'load' and a.loops == (H,) for a in E.acc)]
        if len(blocks) != 1:
            ctx.fail('R5.2', f, 'block loop', f'reason=unrecognised-shape: {len(blocks)} candidate block loops')
            continue
        H = blocks[0]
        L = E.loops[H]
        if len(L.inner) != 1:
            ctx.fail('R5.2', f, 'symbol loop', 'reason=unrecognised-shape')
            continue
        Hk = L.inner[0]
        Lk = E.loops[Hk]
        probs = []
        if not (Lk.iter and Lk.iter[0] == 'range' and norm(Lk.iter[1]) == ('k', 0) and common.is_usize_const(Lk.iter[2], 'K')):
            probs.append(f'symbol loop runs over {Lk.iter}, expected 0..K')
        a_elem = ('elem', Lk.iter, Hk)
        # the block's input load: through a pointer bumped by W per block, or through `seq.as_ptr().add(i)` with the block counter i
        block_load_keys = {a.ptr.key() for a in E.acc if a.kind == 'load' and a.loops == (H,) and isinstance(a.ptr, Ptr)}
        vecs = {l: v for l, v in Lk.carried.items() if isinstance(v, Vec)}
        enc = unk = None
        for l, v in vecs.items():
            u = Lk.update[l]
            ok_all = True
            kind = None
            for i in range(W):
                t = u.b[i]
                me = ('phi', Hk, l, i)
                if not (isinstance(t, tuple) and t[0] == 'select' and t[3] == me and t[1][0] == 'eq'):
                    ok_all = False
                    break
                mask, val = t[1], t[2]
                letter, ascii_ = mask[1], mask[2]
                if not (isinstance(letter, tuple) and letter[0] == 'ld' and letter[2] == i and letter[1] in block_load_keys):
                    ok_all = False
                    probs.append(f'lane {i}: compared byte is {str(letter)[:60]}, not input byte {i} of the block')
                    break
                want_ascii = ('scalar', 1, ('idx', ('deref', ('call', 'core::str::as_bytes', (('call', 'lightmotif::abc::Alphabet::as_str', ()),))), a_elem))
                if ascii_ != want_ascii:
                    ok_all = False
                    probs.append(f'lane {i}: letter compared with {str(ascii_)[:80]}, expected as_str().as_bytes()[a]')
                    break
                k2 = 'enc' if val == ('scalar', 1, a_elem) else ('unk' if val == ('k', 0) else None)
                if k2 is None or (kind and kind != k2):
                    ok_all = False
                    probs.append(f'lane {i}: blended value {str(val)[:60]} is neither the index a nor 0')
                    break
                kind = k2
            if ok_all and kind == 'enc':
                enc = l
            elif ok_all and kind == 'unk':
                unk = l
        if enc is None or unk is None:
            probs.append('did not find both an `encoded` (select(eq, a, old)) and an `unknown` (select(eq, 0, old)) accumulator')
        else:
            if not all(x == ('k', 255) for x in vecs[unk].b):
                probs.append('`unknown` does not start as all-ones')
            # error accumulation in the block loop
            errs = [l for l, v in L.carried.items() if isinstance(v, Vec)]
            ok_err = False
            for l in errs:
                u = L.update[l]
                if all(u.b[i] in (('or', ('phi', H, l, i), ('out', Hk, unk, i)), ('or', ('out', Hk, unk, i), ('phi', H, l, i))) for i in range(W)) and all(x == ('k', 0) for x in L.carried[l].b):
                    ok_err = True
                    err_local = l
            if not ok_err:
                # alternative design: the block is tested immediately through a byte mask and the function returns early
                mm = [(c, truth) for c, truth in L.conds if isinstance(c, tuple) and c[0] == 'bin' and isinstance(c[2], tuple) and c[2] and c[2][0] == 'movemask']
                if mm:
                    c, truth = mm[0]
                    vecm = c[2][1]
                    lanes_ok = isinstance(vecm, Vec) and all(vecm.b[i] == ('out', Hk, unk, i) for i in range(W))
                    stays_when_zero = (c[1] == 'Ne' and not truth) or (c[1] == 'Eq' and truth)
                    if not lanes_ok:
                        probs.append('the byte mask tested per block is not the `unknown` vector')
                    elif not (stays_when_zero and norm(c[3]) == ('k', 0)):
                        if c[1] in ('Gt', 'Lt', 'Ge', 'Le') and W == 32:
                            probs.append(f'per-block error test is `movemask {c[1]} 0` on the signed 32-bit mask: lane 31 is the sign bit, so an unknown byte in the last lane of a block is not detected')
                        else:
                            probs.append(f'per-block error test `{c[1]}` does not mean "any lane unknown"')
                    else:
                        ok_err = True
            if not ok_err and not probs:
                probs.append('error flag is not `error |= unknown` from an all-zero start')
            # store: encoded -> dst at the same running offset as the load
            st = [a for a in E.acc if a.kind == 'store' and a.loops == (H,) and isinstance(a.value, Vec)]
            ld = [a for a in E.acc if a.kind == 'load' and a.loops == (H,)]
            if not (len(st) == 1 and len(ld) == 1 and all(st[0].value.b[i] == ('out', Hk, enc, i) for i in range(W))):
                probs.append('the stored block is not the encoded vector')
            else:
                from . import C06
                (sr, ssteps, soff), (lr, lsteps, loff) = KN.root_of(E, st[0].ptr), KN.root_of(E, ld[0].ptr)
                together = False
                if sr is not None and lr is not None and sr.base == ('slice', ('p', 2)) and lr.base == ('slice', ('p', 1)):
                    bumped = [(H_, st_) for H_, _, st_ in ssteps] == [(H, {'': W})] == [(H_, st_) for H_, _, st_ in lsteps] and not soff and not loff
                    # `base.add(i)`: both at offset i, i the block counter starting at 0 and advancing by W
                    cr = C06.counter_relation(E, H)
                    counted = not ssteps and not lsteps and soff == loff and len(soff) == 1 and \
                        any(soff == {X.canon(('phi', H, cl)): 1} and norm(ci) == ('k', 0) and cs == W for cl, ci, cs in cr)
                    # `seq_head[off..].as_ptr()` / `dst_head[off..].as_mut_ptr()` with `off` drawn from `(0..n).step_by(W)` by the block loop
                    so, lo_ = getattr(sr, 'subslice_offs', None), getattr(lr, 'subslice_offs', None)
                    stepped = False
                    if not ssteps and not lsteps and soff == loff and len(soff) == 1 and list(soff.values()) == [1] and so and lo_ and \
                            [norm(x) for x in so] == [norm(x) for x in lo_] and len(so) == 1:
                        sb = step_range(so[0])
                        stepped = sb is not None and sb[0] == H and norm(sb[1]) == ('k', 0) and sb[3] == W
                    together = bumped or counted or stepped
                if not together:
                    probs.append('source and destination pointers do not advance together from the starts of seq / dst')
        if probs:
            ctx.fail('R5.2', f, 'encoder lanes', '; '.join(probs[:3]))
        else:
            n += 1
            ctx.ok('R5.2', f, f'{f.name}: {W} byte lanes: encoded[t] = a iff letter[t] == as_str()[a]; unknown/error flags; block stored in place',
                   [f'{W} lanes x K iterations', 'R5.1(b): letters distinct, so the select chain is order-independent'])
    ctx.floor('R5.2', n, 2, 'SIMD encoders')


def r53_54(db, ctx):
    ctx.rule('R5.3', 'error must-pass-through: every path to Ok(()) passes the test of the error flag; on the flagged side the input is rescanned from its start with from_ascii and the first Err propagates')
    ctx.rule('R5.4', 'tail hand-off: the generic encoder is called on seq[i..] / dst[i..] with the i the block loop stopped at, under i < len, and its result is propagated')
    for path, W in ENCODERS:
        f = db.fn(path)
        R = X.Rec(f)
        oks = C09_ok_blocks(f)
        # error test block: switch on testz(...) != 1   or  any(|x| x != 0)
        tests = []
        for bi in range(len(f.blocks)):
            t = f.term(bi)
            if t['k'] == 'switch':
                d = X.canon(norm(R.operand(t['discr'])))
                if '_mm256_testz_si256' in d or ('Iterator::any' in d):
                    tests.append(bi)
                elif bi not in tests:
                    # the error vector spilled to a local array and the array compared with an all-zero array (`flags != [0; N]`)
                    dn = norm(R.operand(t['discr']))
                    mm = m(('call~', ('array::equality::ne', 'array::equality::eq', 'PartialEq::ne', 'PartialEq::eq'), ('$a', '$b')), dn)
                    if mm is not None:
                        spilled = set()
                        for b2, t2 in f.calls():
                            if (f.callee_short(t2) or '').rsplit('::', 1)[-1] in ('_mm_storeu_si128', '_mm256_storeu_si256', '_mm_store_si128', '_mm256_store_si256'):
                                a0 = norm(R.operand(t2['args'][0]))
                                for x in X.walk(a0):
                                    if x[0] == 'v' and f.local_ty(x[1]).startswith('['):
                                        spilled.add(x)
                        sides = [mm['$a'], mm['$b']]
                        arr = [x for x in sides if x in spilled]
                        other = [x for x in sides if x not in spilled]
                        zero = False
                        if len(arr) == 1 and len(other) == 1:
                            o = other[0]
                            if o[0] == 'promoted':
                                pe = common.promoted_expr(db, o[1], o[2])
                                o = norm(pe) if pe is not None else o
                            zero = (o[0] == 'repeat' and norm(o[1]) == ('k', 0)) or (o[0] == 'agg' and all(norm(z) == ('k', 0) for z in o[2]))
                        if zero:
                            tests.append(bi)
        good = len(tests) == 1 and oks and all(f.dominates(tests[0], o) for o in oks)
        # NEON design: the four error vectors are OR-ed into one and tested 64 bits at a time (`lane 0 != 0 || lane 1 != 0`)
        lane_calls = [(bi, t) for bi, t in f.calls() if (f.callee_short(t) or '').endswith('vgetq_lane_u64')]
        if not tests and lane_calls:
            lanes_tested = set()
            leaves_ok = True
            for bi, t in lane_calls:
                try:
                    lanes_tested.add(int((t.get('gargs') or ['?'])[0]))
                except ValueError:
                    leaves_ok = False
                arg = norm(R.operand(t['args'][0]))
                leaves, other = [], []

                def ortree(e):
                    if e[0] == 'call' and e[1].endswith(('vorrq_u8', 'vorrq_u64')) and len(e[2]) == 2:
                        ortree(e[2][0]); ortree(e[2][1])
                    elif e[0] == 'call' and e[1].rsplit('::', 1)[-1].startswith('vreinterpretq_') and len(e[2]) == 1:
                        ortree(e[2][0])
                    elif e[0] == 'fld' and e[1][0] == 'v':
                        leaves.append((e[1][1], e[2]))
                    else:
                        other.append(e)
                ortree(arg)
                if other or len({l for l, _ in leaves}) != 1 or sorted(k for _, k in leaves) != ['0', '1', '2', '3']:
                    leaves_ok = False
            tblocks = []
            for bi in range(len(f.blocks)):
                t = f.term(bi)
                if t['k'] == 'switch':
                    d = norm(R.operand(t['discr']))
                    if m(('bin', 'Ne', ('call~', 'vgetq_lane_u64', '_'), ('k', 0)), d) is not None:
                        tblocks.append(bi)
            first = [b for b in tblocks if all(f.dominates(b, o) for o in tblocks)]
            if lanes_tested == {0, 1} and leaves_ok and len(tblocks) == 2 and first and oks and all(f.dominates(first[0], o) for o in oks):
                tests = [first[0]]
                good = True
            else:
                ctx.fail('R5.3', f, 'error test', f'the 64-bit lane tests cover lanes {sorted(lanes_tested)} of an OR over error fields (complete={leaves_ok}); '
                         'expected both lanes of the OR of all four error vectors, tested before every Ok')
        early = None
        for bi in range(len(f.blocks)):
            t = f.term(bi)
            if t['k'] == 'switch' and 'movemask' in X.canon(norm(R.operand(t['discr']))):
                early = bi
        if not tests and early is not None:
            # per-block test: Ok is only reachable through the test, the flagged side reports seq[i + trailing_zeros(mask)]
            loops_e = [L_ for L_ in f.loops() if early in L_['body']]
            good2 = bool(oks) and bool(loops_e) and all(f.dominates(early, l_) for L_ in loops_e[-1:] for l_ in L_['latches'])
            errv = None
            for blk in f.blocks:
                for st in blk['stmts']:
                    if st['k'] == 'assign' and st['rv']['k'] == 'agg' and st['rv'].get('adt', '').endswith('InvalidSymbol'):
                        errv = norm(R.operand(st['rv']['ops'][0]))
            first = False
            if errv is not None:
                ie = m(('idx', ('p', 1), '$k'), errv) or m(('call~', '::index', (('p', 1), '$k')), errv)
                if ie is not None:
                    lk = X.lin(ie['$k'])
                    atoms = {k_: v_ for k_, v_ in lk.items() if k_ != ''}
                    # seq[i + trailing_zeros(mask)]: exactly the block offset plus the index of the lowest set lane, no constant
                    first = lk.get('', 0) == 0 and len(atoms) == 2 and all(v_ == 1 for v_ in atoms.values()) and sum('trailing_zeros' in k_ for k_ in atoms) == 1
            if good2 and first:
                ctx.ok('R5.3', f, 'per-block test dominates Ok; the flagged side reports seq[i + trailing_zeros(mask)] (first unknown lane)', ['early return'])
            else:
                ctx.fail('R5.3', f, 'error path', f'per-block error test on every iteration={good2}, reports the first unknown lane={first}')
        else:
            # rescan from the start
            rescans = [(bi, t) for bi, t in f.calls() if (f.callee_short(t) or '').endswith('Symbol::from_ascii')]
            rs_ok = False
            for bi, t in rescans:
                a_ = norm(R.operand(t['args'][0]))
                if a_[0] == 'elem':
                    src = a_[1]
                    while src[0] == 'call' and len(src[2]) == 1 and src[1].endswith(('slice::iter', 'into_iter', 'Iterator::copied', 'Iterator::cloned')):
                        src = src[2][0]
                    if src == ('p', 1):           # the whole input, from its first byte, in order
                        rs_ok = True
                # index form: seq[i] for i in 0..seq.len()
                bi_ = m(('idx', ('p', 1), ('elem', ('agg', '_', (('k', 0), '$hi')), '$L')), a_)
                if bi_ is not None and (common.is_len_of(bi_['$hi'], ('p', 1)) or (bi_['$hi'][0] == 'v' and f.local_name(bi_['$hi'][1]) == 'l')):
                    rs_ok = True
            for bi, t in f.calls():
                recv_ok = False
                if (f.callee_short(t) or '').endswith('Iterator::try_for_each'):
                    from lm import prov
                    recv = R.operand(t['args'][0])
                    if X.canon(norm(recv)) == 'core::slice::iter(arg1)':
                        recv_ok = True
                    else:
                        # the iterator lives in a `&mut` local: look at what produced it
                        nr = norm(recv)
                        if nr[0] == 'v':
                            ds = f.defs().get(nr[1], [])
                            vals = [norm(R.call(x) if si == 'term' else R.rvalue(x)) for _, si, x in ds]
                            recv_ok = bool(vals) and all(X.canon(v_) == 'core::slice::iter(arg1)' for v_ in vals)
                if recv_ok:
                    for g in db.closures_of(f):
                        Rg = X.Rec(g)
                        for _, tg in g.calls():
                            if (g.callee_short(tg) or '').endswith('Symbol::from_ascii') and norm(Rg.operand(tg['args'][0])) in (('p', 2), ('fld', ('p', 2), '0')):
                                rs_ok = True
            if not rs_ok:
                # `let p = seq.iter().position(|&c| from_ascii(c).is_err()); if let Some(p) = p { from_ascii(seq[p])?; }`: the first byte
                # (in input order, over the whole input) that from_ascii rejects is the one whose error is returned
                from lm import reduce as RD
                RC = RD.RCanon(db, f, R)
                for bi, t in f.calls():
                    if not (f.callee_short(t) or '').endswith('Iterator::position') or len(t['args']) != 2:
                        continue
                    e_ = norm(R.call(t))
                    Lp = RD._fresh()
                    el = RC.elem_of(e_[2][0], Lp)
                    if el is None or el[0] != ('at', ('p', 1), ('pos', Lp)) or el[1] != [('len', ('p', 1))]:
                        continue
                    pred = RD.apply_fn(db, e_[2][1], [el[0]])
                    if pred is None or m(('call~', 'Result::is_err', (('call~', 'Symbol::from_ascii', (el[0],)),)), RC.canon(pred)) is None:
                        continue
                    # the reported error: from_ascii(seq[(position(..) as Some).0])
                    for bi2, t2 in rescans:
                        a_ = norm(R.at(bi2).operand(t2['args'][0]))
                        mm = m(('idx', ('p', 1), ('fld', ('down', '$pos', 'Some'), '0')), a_)
                        if mm is None:
                            mm = m(('call~', '::index', (('p', 1), ('fld', ('down', '$pos', 'Some'), '0'))), a_)
                        if mm is not None and norm(mm['$pos']) == e_ and f.dominates(bi, bi2):
                            rs_ok = True
            # the `?`: an Err return reachable from the rescan
            errs = [bi for bi, blk in enumerate(f.blocks) for st in blk['stmts'] if st['k'] == 'assign' and st['p']['l'] == 0 and st['rv']['k'] == 'agg' and st['rv'].get('variant') == 'Err']
            prop = bool(errs) or any((f.callee_short(t) or '').endswith('from_residual') and t['dest']['l'] == 0 for _, t in f.calls())
            if good and rs_ok and prop:
                ctx.ok('R5.3', f, 'Ok(()) dominated by the error-flag test; flagged side rescans seq.iter() from the start with from_ascii(..)?', ['first offending byte reported'])
            else:
                ctx.fail('R5.3', f, 'error path', f'flag test dominates Ok={good}, rescan from start={rs_ok}, Err propagated={prop}')
        # R5.4
        tails = [(bi, t) for bi, t in f.calls() if (f.callee_short(t) or '').endswith('Encode::encode_into')]
        ok4 = False
        why = f'{len(tails)} tail calls'
        if len(tails) == 1:
            bi, t = tails[0]
            a1, a2 = norm(R.operand(t['args'][1])), norm(R.operand(t['args'][2]))
            b1 = m(('call~', '::index', (('p', 1), ('agg', '_', ('$i',)))), a1)
            b2 = m(('call~', '::index_mut', (('p', 2), ('agg', '_', ('$i',)))), a2)
            rels = G.relations(f, R, bi)
            if b1 is not None and b2 is not None and b1['$i'] == b2['$i'] and b1['$i'][0] == 'v' and is_block_counter(db, f, b1['$i'][1], W):
                lt = G.holds(rels, 'lt', lambda e: norm(e) == b1['$i'], lambda e: common.is_len_of(e))
                # result propagated: a Try::branch on the call result
                tb = t.get('target')
                propagated = any((f.callee_short(t2) or '').endswith('Try::branch') and f.dominates(bi, b2_) for b2_, t2 in f.calls())
                inv = False
                if not lt:
                    inv = tail_index_invariant(db, f, b1['$i'][1])
                if (lt or inv) and propagated:
                    ok4 = True
                else:
                    why = f'guard i < len: {bool(lt)} (loop invariant i <= len: {inv}), result propagated: {propagated}'
            elif b1 is not None and b2 is not None and b1['$i'] == b2['$i'] and prefix_blocks(f, R, b1['$i'], W):
                # blocks drawn from seq[..i].chunks_exact(W) zipped with dst[..i].chunks_exact_mut(W), i a multiple of W: the blocks are exactly
                # [0, i) of both slices, the tail is [i, len) of both (seq[..i] has already panicked if i > len)
                propagated = any((f.callee_short(t2) or '').endswith('Try::branch') and f.dominates(bi, b2_) for b2_, t2 in f.calls())
                ok4 = propagated
                why = f'result propagated: {propagated}'
            elif split_blocks(db, f, R, a1, a2, W):
                propagated = any((f.callee_short(t2) or '').endswith('Try::branch') and f.dominates(bi, b2_) for b2_, t2 in f.calls())
                ok4 = propagated
                why = f'result propagated: {propagated}'
            elif chunk_tail(f, R, a1, a2, W):
                # `src_blocks.remainder()` / `dst_blocks.into_remainder()` of the chunk iterators that drove the block loop: the elements after
                # the last whole block of W, at the same offset in both slices (their lengths are asserted equal on entry)
                propagated = any((f.callee_short(t2) or '').endswith('Try::branch') and f.dominates(bi, b2_) for b2_, t2 in f.calls())
                ok4 = propagated
                why = f'result propagated: {propagated}'
            else:
                why = f'tail called on {X.show(a1, 60)} / {X.show(a2, 60)}'
        (ctx.ok if ok4 else ctx.fail)('R5.4', f, 'generic tail on seq[i..], dst[i..] under i < len, result propagated with ?', *([['same i for source and destination']] if ok4 else [why]))


def step_range(e):
    """e = the element drawn by loop H from `(lo..hi).step_by(s)`: (H, lo, hi, s); None otherwise."""
    e = norm(e)
    if not (e[0] == 'elem' and isinstance(e[1], tuple) and e[1] and e[1][0] == 'iter'):
        return None
    it = norm(e[1][1])
    if it[0] == 'call' and it[1].endswith('Iterator::step_by') and len(it[2]) == 2:
        rng, st = norm(it[2][0]), norm(it[2][1])
        if rng[0] == 'agg' and isinstance(rng[1], tuple) and len(rng[1]) > 2 and rng[1][2] == 'Range' and len(rng[2]) == 2 and st[0] == 'k' and isinstance(st[1], int):
            return e[2], rng[2][0], rng[2][1], st[1]
    return None


def multiple_of(e, W):
    e = norm(e)
    mul = m(('bin', 'Mul', ('bin', 'Div', '$x', '$w1'), '$w2'), e) or m(('bin', 'Mul', '$w2', ('bin', 'Div', '$x', '$w1')), e)
    return mul is not None and norm(mul['$w1']) == ('k', W) and norm(mul['$w2']) == ('k', W)


def split_blocks(db, f, R, a1, a2, W):
    """a1 = seq.split_at(h).1, a2 = dst.split_at_mut(h).1 with the same h = (x / W) * W, and the block loop draws its offsets from
    (0..h).step_by(W) (that the loads and stores sit at those offsets of the two slices is R5.2): the blocks are exactly [0, h), the tail [h, len)."""
    b1 = m(('fld', ('call~', ('slice::split_at',), (('p', 1), '$h')), '1'), a1)
    b2 = m(('fld', ('call~', ('slice::split_at_mut',), (('p', 2), '$h')), '1'), a2)
    if b1 is None or b2 is None or norm(b1['$h']) != norm(b2['$h']) or not multiple_of(b1['$h'], W):
        return False
    h = norm(b1['$h'])
    fE, E, err = KN.evaluate(db, f.path)
    if E is None:
        return False
    for H, L in E.loops.items():
        it = L.iter
        if isinstance(it, tuple) and it and it[0] == 'iter':
            sb = step_range(('elem', it, H))
            if sb is not None and norm(sb[1]) == ('k', 0) and norm(sb[2]) == h and sb[3] == W:
                # and it is the loop that does the vector accesses
                if any(a.kind in ('load', 'store') and a.width and H in a.loops for a in E.acc):
                    return True
    return False


def prefix_blocks(f, R, i, W):
    """The block loop iterates zip(seq[..i].chunks_exact(W), dst[..i].chunks_exact_mut(W)) with i = (x / W) * W."""
    i = norm(i)
    mul = m(('bin', 'Mul', ('bin', 'Div', '$x', '$w1'), '$w2'), i) or m(('bin', 'Mul', '$w2', ('bin', 'Div', '$x', '$w1')), i)
    if mul is None or norm(mul['$w1']) != ('k', W) or norm(mul['$w2']) != ('k', W):
        return False

    def source(it):
        it = norm(it)
        for _ in range(3):
            if it[0] == 'v':
                ds = f.defs().get(it[1], [])
                if len(ds) != 1 or ds[0][1] != 'term':
                    return None
                it = norm(R.call(ds[0][2]))
            v = m(('call~', ('Iterator::by_ref', 'IntoIterator::into_iter'), ('$x',)), it)
            if v is None:
                break
            it = norm(v['$x'])
        mm = m(('call~', ('slice::chunks_exact', 'slice::chunks_exact_mut'), ('$x', ('k', '$n'))), it)
        if mm is None or mm['$n'] != W:
            return None
        return KN.chunk_source(mm['$x'])
    for bi, t in f.calls():
        if (f.callee_short(t) or '').endswith('Iterator::zip') and len(t['args']) == 2:
            zs = [source(R.operand(a_)) for a_ in t['args']]
            if all(z is not None for z in zs) and zs[0][0] == ('p', 1) and zs[1][0] == ('p', 2) and \
                    zs[0][1] is not None and norm(zs[0][1]) == i and zs[1][1] is not None and norm(zs[1][1]) == i:
                return True
    return False


def chunk_tail(f, R, a1, a2, W):
    """a1 = remainder of seq.chunks_exact(W), a2 = (into_)remainder of dst.chunks_exact_mut(W), and those two iterators are the ones the
    block loop draws its blocks from (`.by_ref()`), so nothing between the last block and the tail is skipped or encoded twice."""
    b1 = m(('call~', ('ChunksExact::remainder',), ('$it',)), a1)
    b2 = m(('call~', ('ChunksExactMut::into_remainder', 'ChunksExactMut::remainder'), ('$it',)), a2)
    if b1 is None or b2 is None:
        return False

    def source(it):
        it = norm(it)
        if it[0] == 'v':
            ds = f.defs().get(it[1], [])
            if len(ds) != 1 or ds[0][1] != 'term':
                return None
            it = norm(R.call(ds[0][2]))
        mm = m(('call~', ('slice::chunks_exact', 'slice::chunks_exact_mut'), ('$x', ('k', '$n'))), it)
        return (mm['$x'], mm['$n'], it) if mm is not None else None
    s1, s2 = source(b1['$it']), source(b2['$it'])
    if s1 is None or s2 is None or s1[0] != ('p', 1) or s2[0] != ('p', 2) or s1[1] != W or s2[1] != W:
        return False
    # the block loop iterates zip(by_ref(<the same two iterators>))
    l1, l2 = norm(b1['$it']), norm(b2['$it'])
    for bi, t in f.calls():
        if (f.callee_short(t) or '').endswith('Iterator::zip') and len(t['args']) == 2:
            z = [norm(R.operand(a_)) for a_ in t['args']]
            via = [m(('call~', 'Iterator::by_ref', ('$x',)), z_) for z_ in z]
            zs = [source(v['$x']) if v is not None else source(z_) for v, z_ in zip(via, z)]
            # the blocks are drawn from chunk iterators over the same slices with the same block length (the remainder of a chunk iterator
            # does not depend on how far it has been advanced)
            if all(x is not None for x in zs) and (zs[0][0], zs[0][1]) == (s1[0], s1[1]) and (zs[1][0], zs[1][1]) == (s2[0], s2[1]):
                return True
    return False


def is_block_counter(db, f, l, W):
    """Local l is the counter of the block loop: starts at 0 and advances by W per iteration (whatever it is called)."""
    from . import C06
    fE, E, err = KN.evaluate(db, f.path)
    if E is None:
        return False
    for H, L in E.loops.items():
        if L.opaque:
            continue
        for cl, cinit, cstep in C06.counter_relation(E, H):
            if cl == l and norm(cinit) == ('k', 0) and cstep == W:
                return True
    return False


def tail_index_invariant(db, f, i_local):
    """i <= len(seq) holds after the block loop when: i starts at 0, the loop guard is  i + c < len  or  i + c <= len,  and i advances by s <= c per iteration."""
    from . import C06
    fE, E, err = KN.evaluate(db, f.path)
    if E is None:
        return False
    for H, L in E.loops.items():
        if L.iter is not None or L.opaque:
            continue
        cr = [c for c in C06.counter_relation(E, H) if c[0] == i_local]
        if len(cr) != 1:
            continue
        cl, cinit, cstep = cr[0]
        if norm(cinit) != ('k', 0):
            continue
        me = X.canon(('phi', H, cl))
        for cnd, truth in L.conds:
            if not (isinstance(cnd, tuple) and cnd[0] == 'bin' and cnd[1] in ('Lt', 'Le') and truth):
                continue
            la, lb = X.lin(cnd[2]), X.lin(cnd[3])
            if la.get(me) == 1 and set(la) <= {me, ''} and common.is_len_of(cnd[3]) and cstep <= la.get('', 0):
                return True
    return False


def C09_ok_blocks(f):
    return [bi for bi, blk in enumerate(f.blocks) for st in blk['stmts'] if st['k'] == 'assign' and st['p']['l'] == 0 and not st['p']['pr'] and st['rv']['k'] == 'agg'
            and st['rv'].get('adt', '').endswith('result::Result') and st['rv'].get('variant') == 'Ok']


def display_writes_every_symbol(db, g):
    """None when Display::fmt writes as_char(self.data[k]) for k = 0, 1, .., len - 1 in order, stopping only on a writer error; else a reason.
    Spellings: `for c in data.iter() { f.write_char(c.as_char())? }`, an index loop, `data.iter().try_for_each(|c| f.write_char(c.as_char()))`."""
    from lm import reduce as RD, iteralg as IA
    R = X.Rec(g)
    C = RD.RCanon(db, g, R)
    data = ('fld', ('p', 1), 'data')
    writes = []          # (canonical written char, loop id, how)
    for bi, t in g.calls():
        c = g.callee_short(t) or ''
        if c.endswith('Write::write_char'):
            writes.append((C.canon(R.at(bi).operand(t['args'][1])), bi, 'loop'))
        elif c.endswith('Iterator::try_for_each') and len(t['args']) == 2:
            e = norm(R.call(t))
            L = RD._fresh()
            el = C.elem_of(e[2][0], L)
            body = RD.apply_fn(db, e[2][1], [el[0]]) if el is not None else None
            if body is None or not (body[0] == 'call' and body[1].endswith('Write::write_char') and len(body[2]) == 2):
                return 'reason=unrecognised-shape: try_for_each closure is not a single write_char'
            if t['dest']['l'] != 0 or t['dest']['pr']:
                return 'the result of try_for_each is not what fmt returns (a writer error would be dropped)'
            C.extents[L] = el[1]
            writes.append((C.canon(body[2][1]), None, 'try_for_each'))
    if len(writes) != 1:
        return f'reason=unrecognised-shape: {len(writes)} write_char sites'
    ch, bi, how = writes[0]
    b = m(('call~', 'Symbol::as_char', (('at', '$d', '$k'),)), ch)
    if b is None or b['$d'] != data or not IA.is_pos(b['$k']):
        return f'the written character is {X.show(ch, 100)}, not as_char(self.data[k]) for the k-th write'
    ext = C.extents.get(b['$k'][1])
    whole = ext in ([('len', data)], [('sub', ('len', data), ('k', 0))]) or (bool(ext) and len(ext) == 1 and ext[0][0] == 'sub' and ext[0][2] == ('k', 0) and common.is_len_of(ext[0][1], data))
    if not whole:
        return f'the writes cover {ext}, not every symbol of the sequence'
    if how == 'loop':
        lid = b['$k'][1]
        h = common.loop_of_elem(g, ('elem', None, lid)) if not isinstance(lid, tuple) else (lid[1] if lid[0] == 'while' else None)
        Ls = [L_ for L_ in g.loops() if L_['header'] == h]
        if not Ls:
            return 'reason=unrecognised-shape: loop of the writes not found'
        ex = RD._exhaustion_exit(g, Ls[0])
        can = g.postdominators()
        others = [(x, y) for x, y in Ls[0]['exits'] if (x, y) != ex and y in can]
        if ex is None or not all(g.dominates(bi, x) for x, _ in others):
            return 'the loop can stop before the last symbol for a reason other than a writer error'
    return None


def r55_56(db, ctx):
    ctx.rule('R5.5', 'generic encoder: dst[i] = from_ascii(seq[i])? for every i of enumerate(seq), after assert_eq!(seq.len(), dst.len())')
    fs = [g for g in db.by_short.get('lightmotif::pli::Encode::encode_into', []) if g.raw.get('trait_default_of')]
    if len(fs) != 1:
        ctx.fail('R5.5', 'lightmotif::pli::Encode::encode_into', 'default body', 'reason=anchor-missing')
    else:
        f = fs[0]
        R = X.Rec(f)
        # loop-form independent: dst[i] / seq[i] through enumerate, an index loop, or dst.iter_mut().zip(seq.iter())
        from lm import iteralg
        CA = iteralg.Canon(f, R)
        cand = []
        for s_ in X.stores(f, R):
            tgc = CA.canon(s_['target'])
            if tgc[0] == 'at' and iteralg.is_pos(tgc[2]):
                cand.append((tgc, CA.canon(s_['value']), s_))
        ok = False
        why = f'{len(cand)} element stores'
        if len(cand) == 1:
            tgc, vc, s_ = cand[0]
            L = tgc[2][1]
            reads = [x for x in X.walk(vc) if x[0] == 'call' and x[1].endswith('Symbol::from_ascii') and len(x[2]) == 1]
            src_ok = len(reads) == 1 and m(('at', '$seq', tgc[2]), reads[0][2][0]) is not None
            seqe = m(('at', '$seq', tgc[2]), reads[0][2][0])['$seq'] if src_ok else None
            # the stored value is the success payload of from_ascii(..)? : nothing else is applied to it
            payload = vc == ('fld', ('down', ('call', 'core::ops::try_trait::Try::branch', (reads[0],)), 'Continue'), '0') if reads else False
            if reads and not payload and vc == ('fld', ('down', reads[0], 'Ok'), '0'):
                # `match from_ascii(c) { Ok(s) => dst[i] = s, Err(e) => return Err(e) }`: the Err side of that match must return an error
                from .C09 import returns_err
                for r_ in G.relations(f, R, s_['block']):
                    if r_[0] == 'switch' and CA.canon(r_[1]) == ('discr', reads[0]):
                        others = [t_ for t_ in f.succs(r_[-1]) if not f.dominates(t_, s_['block']) and f.term(t_)['k'] != 'unreachable']
                        payload = bool(others) and all(returns_err(f, t_) for t_ in others)
            ext = CA.extents.get(L, [])
            comp_of = lambda c_: c_[1] if c_[0] == 'len' else (norm(c_[1][2][0]) if c_[0] == 'sub' and c_[2] == ('k', 0) and c_[1][0] == 'call' and c_[1][1].endswith('::len') and len(c_[1][2]) == 1
                                                                 else (c_[1][1] if c_[0] == 'sub' and c_[2] == ('k', 0) and c_[1][0] == 'len' else None))
            whole = bool(ext) and seqe is not None and all(comp_of(c_) in (seqe, tgc[1]) for c_ in ext) and any(comp_of(c_) == seqe for c_ in ext)
            if tgc[1] == ('p', 3) and src_ok and payload and whole and seqe in (('p', 2), ('call', 'core::convert::AsRef::as_ref', (('p', 2),))):
                ok = True
            else:
                why = f'{X.show(tgc, 80)} := {X.show(vc, 100)} over {ext}'
        (ctx.ok if ok else ctx.fail)('R5.5', f, 'dst[i] = from_ascii(seq[i])?', *([['enumerate over the input bytes']] if ok else [why]))
    ctx.rule('R5.6', 'EncodedSequence::encode / from_str use the dispatching pipeline; Display writes as_char of every symbol in order; dispatcher arms (R1.5)')
    f = db.fn('lightmotif::seq::EncodedSequence::encode')
    cs = {f.callee_short(t) for _, t in f.calls()}
    ok = {'lightmotif::pli::Pipeline::dispatch', 'lightmotif::pli::Encode::encode'} <= cs
    (ctx.ok if ok else ctx.fail)('R5.6', f, 'EncodedSequence::encode = Pipeline::dispatch().encode(..)', *([[]] if ok else [f'callees {sorted(c for c in cs if c and "lightmotif" in c)}']))
    g = [x for x in db.fns.values() if x.path.startswith('<lightmotif::seq::EncodedSequence<A> as core::fmt::Display>::fmt')]
    if g:
        why = display_writes_every_symbol(db, g[0])
        (ctx.ok if why is None else ctx.fail)('R5.6', g[0], 'Display writes as_char(symbol) for every symbol in order', *([['round trip follows from R5.1(a)']] if why is None else [why]))
    from . import C01
    before = len(ctx.obligations)
    vb = len(ctx.violations)
    C01.r15(db, ctx)
    for o in ctx.obligations[before:]:
        o['rule'] = 'R5.6'
    for v in ctx.violations[vb:]:
        v['key'] = v['key'].replace(v['rule'], 'R5.6')
        v['rule'] = 'R5.6'
    ctx.rules_text.pop('R1.5', None)
    if 'R1.5' in ctx.floors:
        ctx.floors['R5.6'] = ctx.floors.pop('R1.5')


_run_tables = run


def run(db, ctx):
    _run_tables(db, ctx)
    r52(db, ctx)
    r53_54(db, ctx)
    r55_56(db, ctx)
