#!/usr/bin/env python3
"""Parallel front end of the self-test batteries (same semantics as run.py, N scratch copies).

usage: selftest/prun.py [-j N] [-k substring] [--benign]

Each worker owns /var/tmp/lm-selftest-w<i> and its own cargo target directory (LM_WORKER=w<i>, see lm/extract.py), so extractions of
different mutated trees run concurrently.  Not a registered check.
"""
import os, subprocess, sys, shutil, re, argparse, time, json
from concurrent.futures import ThreadPoolExecutor
HERE = os.path.dirname(os.path.abspath(__file__))
VERIF = os.path.dirname(HERE)
sys.path.insert(0, HERE)
from mutants import MUTANTS, BENIGN


def apply(scratch, edit):
    path = os.path.join(scratch, edit['file'])
    s = open(path).read()
    old, new = edit['old'], edit['new']
    n = s.count(old)
    occ = edit.get('occ')
    if n == 0:
        raise RuntimeError(f"mutant {edit['id']}: pattern not found in {edit['file']}: {old!r}")
    if occ is None and n != 1:
        raise RuntimeError(f"mutant {edit['id']}: pattern occurs {n} times in {edit['file']} (give occ): {old!r}")
    if occ is None or occ == 'all':
        s = s.replace(old, new)
    else:
        parts = s.split(old)
        s = old.join(parts[:occ + 1]) + new + old.join(parts[occ + 1:])
    open(path, 'w').write(s)


def one(w, mt, benign):
    scratch = f'/var/tmp/lm-selftest-{w}'
    os.makedirs(scratch, exist_ok=True)
    subprocess.check_call(['rsync', '-a', '--delete', '--exclude', 'target', '--exclude', '.git', '/repo/', scratch + '/'])
    if mt.get('patch'):
        subprocess.check_call(['patch', '-p1', '-s', '-i', os.path.join(VERIF, mt['patch'])], cwd=scratch)
    for e in mt.get('edits', [mt] if 'file' in mt else []):
        e = dict(e)
        e.setdefault('id', mt['id'])
        apply(scratch, e)
    out_lines, results = [], []
    props = mt['prop'] if isinstance(mt['prop'], list) else [mt['prop']]
    t0 = time.time()
    for prop in props:
        env = dict(os.environ, LM_REPO=scratch, LM_NO_EVIDENCE='1', LM_NO_SENSITIVITY='1', LM_WORKER=w, LM_CACHE_KEEP='96', LM_NO_REPORTS='1')
        r = subprocess.run([os.path.join(VERIF, 'check'), prop, '--tier', mt.get('tier', 'quick')], env=env, capture_output=True, text=True, cwd=VERIF)
        rc, out = r.returncode, r.stdout + r.stderr
        fired = rc == 1 and 'VIOLATION' in out
        broken = 'reason=extract-failed' in out or 'reason=checker-crashed' in out
        if benign:
            ok = rc == 0
            status = 'silent(ok)' if ok else ('BROKEN(does not compile?)' if broken else 'FALSE-ALARM')
        else:
            named = mt.get('rule') is None or re.search(r'rule=' + re.escape(mt['rule']) + r'\b', out) is not None
            ok = fired and named and not broken
            status = 'caught' if ok else ('BROKEN(does not compile?)' if broken else ('fired-but-wrong-rule' if fired else 'MISSED'))
        out_lines.append(f"{mt['id']:42s} {prop} {status:22s} {time.time() - t0:5.1f}s  {mt.get('rule', '')}")
        if not ok:
            out_lines.append('\n'.join('      ' + l for l in out.strip().splitlines()[-12:]))
        results.append((mt['id'], prop, status))
    return out_lines, results


def main():
    ap = argparse.ArgumentParser()
    ap.add_argument('-k', default='')
    ap.add_argument('-j', type=int, default=8)
    ap.add_argument('--benign', action='store_true')
    a = ap.parse_args()
    import fcntl
    lock = open('/var/tmp/lm-selftest.lock', 'w')
    fcntl.flock(lock, fcntl.LOCK_EX)
    items = [mt for mt in (BENIGN if a.benign else MUTANTS) if not a.k or a.k in mt['id'] or a.k in mt['prop']]
    free = [f'w{i}' for i in range(a.j)]
    results = []

    def task(mt):
        w = free.pop()
        try:
            return one(w, mt, a.benign)
        finally:
            free.append(w)
    with ThreadPoolExecutor(max_workers=a.j) as ex:
        for lines, res in ex.map(task, items):
            print('\n'.join(lines), flush=True)
            results.extend(res)
    for i in range(a.j):
        shutil.rmtree(f'/var/tmp/lm-selftest-w{i}', ignore_errors=True)
    bad = [r for r in results if r[2] not in ('caught', 'silent(ok)')]
    print(f'{len(results) - len(bad)}/{len(results)} as expected')
    sys.exit(1 if bad else 0)


main()
