"""C04 — striping is a lossless, backend-independent rearrangement of the sequence (structural clauses)."""
from fractions import Fraction
from lm import lanes as LN, expr as X, guards as G, iteralg as IA
from lm.lanes import Vec, Ptr, lane
from lm.match import norm, m
from lm.db import short
from . import common, kernels as K, C01

LEVEL_NOTE = ('decides (part): the AVX2 32x32 transpose network is the byte transposition (1024 lane obligations), block-loop bookkeeping, scalar tail and fill placement, '
              'generic placement formula and the ceil-div row count at its 4 sites, the wrap-row construction relation, buffer reuse resets wrap (who-writes-field), dispatcher arms, '
              'SymbolCount index formula. Nothing data-dependent remains (striping moves bytes); partial only because NEON/other targets are not analysable here.')

AVX2 = 'lightmotif::pli::platform::avx2::'


def r41_42(db, ctx):
    ctx.rule('R4.1', 'AVX2 transpose: the register stored at out + k*stride has byte c = the byte k of the 32-byte load at src + c*s, i.e. matrix[i+k][c] = seq[c*s + i + k]')
    ctx.rule('R4.2', 'block loop bookkeeping: src += 32, out += 32*stride, i += 32 together from (seq start, matrix row 0, 0); s = ceil(len/32) = rows after resize')
    f, E, err = K.evaluate(db, AVX2 + 'stripe_avx2')
    if E is None:
        ctx.fail('R4.1', f, 'lane evaluation', f'reason=unrecognised-shape: {err}')
        return
    blocks = [H for H, L in E.loops.items() if not L.opaque and any(a.kind == 'store' and a.loops == (H,) and isinstance(a.value, Vec) for a in E.acc)]
    if len(blocks) != 1:
        ctx.fail('R4.1', f, 'block loop', f'reason=unrecognised-shape: {len(blocks)} loops with vector stores')
        return
    H = blocks[0]
    L = E.loops[H]
    ptrs = {l: v for l, v in L.carried.items() if isinstance(v, Ptr)}
    srcs = [l for l, v in ptrs.items() if v.base == ('slice', ('p', 1))]
    outs = [l for l in ptrs if l not in srcs]
    cnts = [l for l, v in L.carried.items() if not isinstance(v, (Ptr, Vec))]
    probs = []
    if len(srcs) != 1 or len(outs) != 1 or len(cnts) != 1:
        ctx.fail('R4.2', f, 'loop-carried state', f'reason=unrecognised-shape: src {srcs}, out {outs}, counters {cnts}')
        return
    src, out, cnt = srcs[0], outs[0], cnts[0]
    # stride atoms
    s_atom = None
    loads = [a for a in E.acc if a.kind == 'load' and a.loops == (H,)]
    stores = [a for a in E.acc if a.kind == 'store' and a.loops == (H,) and isinstance(a.value, Vec)]
    if len(loads) != 32 or len(stores) != 32:
        probs.append(f'{len(loads)} loads / {len(stores)} stores in the block (expected 32 / 32)')
    # loads: src + c*s
    atoms = set()
    for a in loads:
        for k in a.ptr.off:
            if k != '':
                atoms.add(k)
    if len(atoms) != 1:
        probs.append(f'load offsets use atoms {sorted(atoms)}')
    else:
        s_atom = atoms.pop()
    st_atoms = set()
    for a in stores:
        for k in a.ptr.off:
            if k != '':
                st_atoms.add(k)
    o_atom = st_atoms.pop() if len(st_atoms) == 1 else None
    if o_atom is None:
        probs.append('store offsets are not multiples of one stride')
    n_ok = 0
    if s_atom and o_atom and not probs:
        for a in stores:
            if a.ptr.base != ('phi', H, out) or set(a.ptr.off) - {o_atom}:
                probs.append(f'store through {a.ptr}')
                continue
            k = a.ptr.off.get(o_atom, 0)
            if k != int(k) or not (0 <= k < 32):
                probs.append(f'store row offset {k}')
                continue
            k = int(k)
            for c in range(32):
                want = ('ld', (('phi', H, src), X.lin_str({s_atom: Fraction(c)}) if c else '0'), k)
                if a.value.b[c] != want:
                    probs.append(f'row i+{k}, column {c}: holds {str(a.value.b[c])[:70]}, expected byte {k} of the load at src + {c}*s')
                    break
                n_ok += 1
        ks = sorted(int(a.ptr.off.get(o_atom, 0)) for a in stores)
        if ks != list(range(32)):
            probs.append(f'stored rows {ks[:8]}… are not i+0..i+31 each once')
        for c, a in enumerate(sorted(loads, key=lambda a: a.ptr.off.get(s_atom, 0))):
            if a.ptr.base != ('phi', H, src) or a.ptr.off.get(s_atom, 0) != c or a.ptr.off.get('', 0) != 0 or a.width != 32:
                probs.append(f'load {c} reads {a.ptr}')
    if probs:
        ctx.fail('R4.1', f, 'transpose network', '; '.join(probs[:3]))
    else:
        ctx.ok('R4.1', f, 'out[i+k][c] = src[c*s + i + k] for all k, c in 0..32', [f'{n_ok} lane obligations', '5 unpack stages + 32 stores'])
    ctx.floor('R4.1', n_ok, 1024, 'transpose lane obligations')
    # R4.2
    p2 = []
    su, ou = K.ptr_update(E, H, src), K.ptr_update(E, H, out)
    cu = L.update.get(cnt)
    if su != {'': Fraction(32)}:
        p2.append(f'src advances by {X.lin_str(su) if su else None} bytes, expected 32')
    if not (ou and o_atom and ou == {o_atom: Fraction(32)}):
        p2.append(f'out advances by {X.lin_str(ou) if ou else None}, expected 32*stride')
    if not (isinstance(cu, tuple) and X.lin(cu) == {X.canon(('phi', H, cnt)): Fraction(1), '': Fraction(32)}):
        p2.append(f'row counter update is {cu}')
    if L.carried[src].off or norm(L.carried[cnt]) != ('k', 0) or L.carried[out].off:
        p2.append('src / out / i do not start at (sequence start, row 0, 0)')
    ob = L.carried[out].base
    if not (isinstance(ob, tuple) and ob[0] == 'slice' and ob[1][0] == 'call' and ob[1][1].endswith('index_mut') and norm(ob[1][2][1]) == ('k', 0)):
        p2.append('out does not start at matrix[0]')
    if o_atom and 'DenseMatrix::stride' not in o_atom:
        p2.append(f'row step atom is {o_atom}, expected matrix.stride()')
    if s_atom and not ('len(arg1)' in s_atom and 'Div 32' in s_atom and '31' in s_atom):
        p2.append(f'source stride is {s_atom}, expected (len + 31) / 32')
    # matrix.resize(src_stride) before the block
    rs = [c for c in E.calls if c[1].endswith('DenseMatrix::resize')]
    if not (rs and s_atom and X.canon(rs[0][2][1]) == s_atom):
        p2.append('matrix is not resized to ceil(len/32) rows before the blocks')
    if p2:
        ctx.fail('R4.2', f, 'block bookkeeping', '; '.join(p2))
    else:
        ctx.ok('R4.2', f, 'src += 32; out += 32*stride; i += 32; s = (len+31)/32 = matrix rows', ['lock-step'])


def _normal_exits(f, L):
    """Exit edges of a natural loop that can still reach a return (panic / unwind edges ignored)."""
    can = f.postdominators()
    return [(x, y) for x, y in L['exits'] if y in can]


def _loop_with_header_or_iter(f, R, lid):
    """Natural loop for an iteralg loop id (the local holding the iterator) or a header block."""
    h = common.loop_of_elem(f, ('elem', None, lid))
    for L in f.loops():
        if L['header'] == h:
            return L
    return None


def _is_stride32(e):
    """Exactly (len(seq) + 31) / 32, the number of rows of the striped matrix."""
    b = m(('bin', 'Div', '$n', '$c'), norm(e))
    if b is None or X.lin(b['$c']) != {'': Fraction(32)}:
        return False
    return any(X.lin_eq(b['$n'], ('bin', 'Add', L, ('k', 31))) for L in (('call', 'core::slice::len', (('p', 1),)), ('len', ('p', 1))))


def _columns_times_stride(e):
    """columns * rows of the AVX2 striped matrix, with the 32 columns spelled as the call, the type-level constant or the literal, and the
    rows as matrix.rows() or the value the matrix was resized to."""
    e = norm(e)
    if e[0] == 'bin' and e[1] in ('Mul', 'MulUnchecked'):
        for a, b in ((e[2], e[3]), (e[3], e[2])):
            cols = (a[0] == 'call' and a[1].endswith('DenseMatrix::columns')) or (a[0] == 'kc' and str(a[1]).endswith('Unsigned::USIZE')) or a == ('k', 32)
            rows = _is_stride32(b) or (b[0] == 'call' and b[1].endswith('DenseMatrix::rows'))
            if cols and rows:
                return True
    return False


def _subterms(e):
    if isinstance(e, tuple):
        if e and isinstance(e[0], str):
            yield e
        for x in e:
            if isinstance(x, tuple):
                yield from _subterms(x)


def r43(db, ctx):
    ctx.rule('R4.3', 'AVX2 scalar tail matrix[i][j] = s[j*s + i] under j*s + i < len for the remaining rows, and fill of cells len..C*R with the default symbol at (k mod R, k div R)')
    f = db.fn(AVX2 + 'stripe_avx2')
    R = X.Rec(f)
    C = IA.Canon(f, R)
    tail = fill = None
    for s in X.stores(f, R):
        tg = C.canon(s['target'])
        if not (tg[0] == 'at' and tg[1][0] == 'at' and tg[1][1][0] in ('v', 'p') and 'DenseMatrix<' in f.local_ty(tg[1][1][1])):
            continue
        v = C.canon(s['value'])
        M, row, col = tg[1][1], tg[1][2], tg[2]
        if v[0] == 'at' and norm(v[1]) == ('p', 1):
            tail = (s, M, row, col, v[2], 'index')
        else:
            g = m(('fld', ('down', ('call~', 'slice::get', (('p', 1), '$i')), 'Some'), '0'), v)
            if g is not None:
                tail = (s, M, row, col, g['$i'], 'get')
            elif v[0] == 'call' and v[1].endswith('Default::default') and not v[2]:
                fill = (s, M, row, col)
    if not tail or not fill:
        ctx.fail('R4.3', f, 'tail / fill', f'reason=unrecognised-shape: tail={tail is not None}, fill={fill is not None}')
        return
    probs = []
    # the row counter of the vector loop: the local advanced by 32 per block (R4.2 proves its bookkeeping)
    cnts = [l for l, ds in f.defs().items() if any(si != 'term' and m(('bin', 'Add', ('v', l), ('k', 32)), norm(R.rvalue(x))) is not None for _, si, x in ds)]
    s, M, row, col, src_idx, how = tail
    strides = [e for e in _subterms(src_idx) if _is_stride32(e)]
    if not strides or not X.lin_eq(src_idx, ('bin', 'Add', ('bin', 'Mul', col, strides[0]), row)):
        probs.append(f'tail copies s[{X.show(src_idx, 80)}] into [{X.show(row, 30)}][{X.show(col, 30)}], expected s[j*s + i] into [i][j] with s = (len+31)/32')
    if how == 'index':
        rels = G.relations(f, R, s['block'])
        ci = X.canon(src_idx)
        if not G.holds(rels, 'lt', lambda e: X.canon(C.canon(e)) == ci, lambda e: common.is_len_of(e, ('p', 1))):
            probs.append('tail copy is not guarded by j*s + i < len')
    # columns: all 32 of the row
    ext = C.extents.get(col[1]) if IA.is_pos(col) else None
    if not (ext and len(ext) == 1 and (ext[0] == ('sub', ('k', 32), ('k', 0)) or ext[0] == ('len', ('at', M, row)))):
        probs.append(f'tail does not visit columns 0..32 (column extent {ext})')
    else:
        Lc = _loop_with_header_or_iter(f, R, col[1])
        if Lc is None or len(_normal_exits(f, Lc)) != 1:
            probs.append('tail column loop can be left early')
    # rows: from where the vector blocks stopped up to matrix.rows() (spelled as the call, or as the value the matrix was resized to: R4.2)
    is_rows = lambda e_: common.is_call_on(e_, 'DenseMatrix::rows', M) or _is_stride32(e_)
    rows_ok = False
    if len(cnts) == 1:
        cnt = cnts[0]
        if norm(row) == ('v', cnt):
            # while i < rows { .. i += 1 }
            inner = [L for L in f.loops() if s['block'] in L['body']]
            cand = [L for L in inner if any(d[0] in L['body'] and d[1] != 'term' and m(('bin', 'Add', ('v', cnt), ('k', 1)), norm(R.rvalue(d[2]))) is not None
                                              for d in f.defs().get(cnt, []))]
            if cand:
                Lr = max(cand, key=lambda L_: len(L_['body']))
                incs = [d for d in f.defs().get(cnt, []) if d[0] in Lr['body']]
                rels = G.relations(f, R, s['block'])
                guard = G.holds(rels, 'lt', lambda e: norm(e) == ('v', cnt), is_rows)
                ex = _normal_exits(f, Lr)
                rows_ok = len(incs) == 1 and all(f.dominates(incs[0][0], lt) for lt in Lr['latches']) and guard is not None \
                    and len(ex) == 1 and len(f.defs().get(cnt, [])) == 3 and f.dominates(guard[-1], incs[0][0]) and guard[-1] == ex[0][0]
        else:
            b = m(('bin', 'Add', ('v', cnt), ('pos', '$L')), row)
            if b is not None and len(f.defs().get(cnt, [])) == 2:
                e = C.extents.get(b['$L'])
                Lr = _loop_with_header_or_iter(f, R, b['$L'])
                rows_ok = bool(e) and len(e) == 1 and e[0][0] == 'sub' and e[0][2] == ('v', cnt) and is_rows(e[0][1]) \
                    and Lr is not None and len(_normal_exits(f, Lr)) == 1
    if not rows_ok:
        probs.append(f'tail rows [{X.show(row, 60)}] do not run from the block counter to matrix.rows()')
    s2, M2, row2, col2 = fill
    b = m(('bin', 'Rem', '$k', '$r'), row2)
    c = m(('bin', 'Div', '$k', '$r'), col2)
    if b is None or c is None or b != c or not _is_stride32(b['$r']) or M2 != M:
        probs.append(f'fill writes [{X.show(row2, 40)}][{X.show(col2, 40)}], expected [k % s][k / s]')
    else:
        k = b['$k']
        kb = m(('bin', 'Add', '$lo', ('pos', '$L')), k)
        e = C.extents.get(kb['$L']) if kb is not None else None
        Lf = _loop_with_header_or_iter(f, R, kb['$L']) if kb is not None else None
        if not (e and len(e) == 1 and e[0][0] == 'sub' and e[0][2] == kb['$lo'] and common.is_len_of(kb['$lo'], ('p', 1))
                and (common.is_product_of_calls(e[0][1], ['DenseMatrix::columns', 'DenseMatrix::rows']) or _columns_times_stride(e[0][1]))
                and Lf is not None and len(_normal_exits(f, Lf)) == 1):
            probs.append(f'fill range is {X.show(k, 100)} over {e}, expected len .. columns*rows')
    # rebuild through StripedSequence::new
    if not any((f.callee_short(t) or '').endswith('StripedSequence::new') for _, t in f.calls()):
        probs.append('result is not rebuilt through StripedSequence::new')
    (ctx.ok if not probs else ctx.fail)('R4.3', f, 'scalar tail + fill placement', *([['tail rows i..R for 32 columns', 'fill len..C*R with default']] if not probs else ['; '.join(probs)]))


def ceil_div_ok(e, lenc='len', C=None):
    """Does e denote ceil(len / C)?  forms: (len + (C-1)) / C   or   len / C + ((len % C > 0) as usize)."""
    e = norm(e)
    b = m(('bin', 'Div', '$n', '$c'), e)
    if b is not None:
        l = X.lin(b['$n'])
        lc = X.lin(b['$c'])
        ks = {k: v for k, v in l.items() if k != ''}
        cks = set(lc) - {''}
        lens = [k for k in ks if k not in cks]
        if len(lens) == 1 and ks[lens[0]] == 1:
            rest = {k: v for k, v in l.items() if k != lens[0]}
            # rest == C - 1
            want = dict(lc)
            want[''] = want.get('', 0) - 1
            want = {k: v for k, v in want.items() if v != 0}
            if {k: v for k, v in rest.items() if v != 0} == want:
                return True
    if m(('call~', 'div_ceil', ('$n', '$c')), e) is not None:
        return True
    # if len % C > 0 { len / C + 1 } else { len / C }
    for cmp_, neg in (('Gt', False), ('Ne', False), ('Eq', True)):
        hi, lo = ('bin', 'Add', ('bin', 'Div', '$n', '$c'), ('k', 1)), ('bin', 'Div', '$n', '$c')
        pat = ('ite', ('bin', cmp_, ('bin', 'Rem', '$n', '$c'), ('k', 0)), lo if neg else hi, hi if neg else lo)
        if m(pat, e) is not None:
            return True
    # usize::from(len % C != 0) + len / C: From<bool> is the cast, the operands of + in either order
    if e[0] == 'bin' and e[1] == 'Add':
        ops = [e[2], e[3]]
        for k_ in (0, 1):
            o_ = ops[k_]
            if o_[0] == 'call' and o_[1].rsplit('::', 1)[-1] == 'from' and len(o_[2]) == 1 and norm(o_[2][0])[0] == 'bin' and norm(o_[2][0])[1] in ('Gt', 'Ne'):
                ops[k_] = norm(o_[2][0])
            elif o_[0] == 'cast' and norm(o_[1])[0] == 'bin' and norm(o_[1])[1] in ('Gt', 'Ne'):
                ops[k_] = norm(o_[1])
        for a_, b_ in ((ops[0], ops[1]), (ops[1], ops[0])):
            b1 = m(('bin', 'Div', '$n', '$c'), a_)
            if b1 is not None and b_[0] == 'bin' and b_[1] in ('Gt', 'Ne') and norm(b_[3]) == ('k', 0) and norm(b_[2]) == ('bin', 'Rem', b1['$n'], b1['$c']):
                return True
    for pat in (('bin', 'Add', ('bin', 'Div', '$n', '$c'), ('cast', ('bin', 'Gt', ('bin', 'Rem', '$n', '$c'), ('k', 0)), 'usize', '_')),
                ('bin', 'Add', ('bin', 'Div', '$n', '$c'), ('bin', 'Gt', ('bin', 'Rem', '$n', '$c'), ('k', 0))),
                ('bin', 'Add', ('bin', 'Div', '$n', '$c'), ('bin', 'Ne', ('bin', 'Rem', '$n', '$c'), ('k', 0)))):
        if m(pat, e) is not None:
            return True
    return False


def r44(db, ctx):
    ctx.rule('R4.4', 'generic placement: data[i mod R][i div R] = symbol i for every i, cells len..R*C get the default symbol, R = ceil(len / C) at all sites')
    fs = [g for g in db.by_short.get('lightmotif::pli::Stripe::stripe_into', []) if g.raw.get('trait_default_of')]
    if len(fs) != 1:
        ctx.fail('R4.4', 'lightmotif::pli::Stripe::stripe_into', 'default body', 'reason=anchor-missing')
        return
    f = fs[0]
    R = X.Rec(f, ite=True)      # `if r > 0 { q + 1 } else { q }` is a value, not two unrelated definitions
    from lm import iteralg
    CA = iteralg.Canon(f, R)
    probs = []
    rows_e = None
    # every store into the matrix: cell [i % R][i / R] for i in lo..hi, value v(i); a conditional value splits the range at len
    pieces = []          # (lo, hi, value, i)
    n_st = 0
    for s in X.stores(f, R):
        tg = CA.canon(s['target'])
        if not (tg[0] == 'at' and tg[1][0] == 'at' and tg[1][1][0] in ('v', 'p') and 'DenseMatrix<' in f.local_ty(tg[1][1][1])):
            continue
        n_st += 1
        row, col = tg[1][2], tg[2]
        b = m(('bin', 'Rem', '$i', '$r'), row)
        c = m(('bin', 'Div', '$i', '$r'), col)
        if b is None and c is None and iteralg.is_pos(row) and iteralg.is_pos(col):
            # nested form: for col in 0..C { for row in 0..R { data[row][col] = if col*R + row < len { s[col*R + row] } else { default } } }:
            # (row, col) ranges over [0, R) x [0, C) and i = col*R + row is the cell's linear index (i mod R = row, i div R = col)
            er, ec = CA.extents.get(row[1]), CA.extents.get(col[1])
            Lr = _loop_with_header_or_iter(f, R, row[1]) if not isinstance(row[1], tuple) else None
            Lc = _loop_with_header_or_iter(f, R, col[1]) if not isinstance(col[1], tuple) else None
            okn = bool(er) and bool(ec) and len(er) == 1 and len(ec) == 1 and er[0][0] == 'sub' and er[0][2] == ('k', 0) and ec[0][0] == 'sub' and ec[0][2] == ('k', 0) \
                and common.is_usize_const(ec[0][1], 'C') and Lr is not None and Lc is not None and len(_normal_exits(f, Lr)) == 1 and len(_normal_exits(f, Lc)) == 1
            v = CA.canon(s['value']) if okn else None
            if okn and v[0] == 'ite':
                Re = er[0][1]
                i_lin = ('bin', 'Add', ('bin', 'Mul', col, Re), row)
                l = m(('bin', 'Lt', '$i', '$n'), v[1])
                pv = m(('at', '$s', '$i2'), v[2])
                if l is not None and pv is not None and X.lin_eq(l['$i'], i_lin) and X.lin_eq(pv['$i2'], i_lin) and common.is_len_of(l['$n'], norm(pv['$s'])) \
                        and norm(pv['$s']) == ('p', 2) and (rows_e is None or rows_e == Re):
                    rows_e = Re
                    i = ('sym', 'i')
                    pieces.append((('k', 0), l['$n'], ('at', pv['$s'], i), i))
                    pieces.append((l['$n'], ('bin', 'Mul', ec[0][1], Re), v[3], i))
                    continue
            probs.append(f'cell [{X.show(row, 40)}][{X.show(col, 40)}] is not [i % R][i / R] (nor the nested form over 0..R x 0..C with i = col*R + row)')
            continue
        if b is None or c is None or b != c or (rows_e is not None and rows_e != b['$r']):
            probs.append(f'cell [{X.show(row, 40)}][{X.show(col, 40)}] is not [i % R][i / R]')
            continue
        rows_e = b['$r']
        i = b['$i']
        L = i if iteralg.is_pos(i) else (i[3] if i[0] == 'bin' and i[1] == 'Add' and iteralg.is_pos(i[3]) else None)
        ext = CA.extents.get(L[1]) if L is not None else None
        Ln = _loop_with_header_or_iter(f, R, L[1]) if L is not None and not isinstance(L[1], tuple) else None
        if not ext or len(ext) != 1 or Ln is None or len(_normal_exits(f, Ln)) != 1:
            probs.append(f'index {X.show(i, 60)} does not run over one complete range')
            continue
        if ext[0][0] == 'len':
            lo, hi = ('k', 0), ('len', ext[0][1])
        elif ext[0][0] == 'sub':
            lo, hi = ext[0][2], ext[0][1]
        else:
            probs.append(f'index extent {ext}')
            continue
        if (lo == ('k', 0)) != iteralg.is_pos(i) or (lo != ('k', 0) and i[2] != lo):
            probs.append(f'index {X.show(i, 60)} is not lo + position')
            continue
        v = CA.canon(s['value'])
        sp = None
        if v[0] == 'ite':
            cnd = v[1]
            g = m(('bin', 'Eq', ('discr', ('call~', 'slice::get', ('$s', '$i'))), ('k', 1)), cnd)
            l = m(('bin', 'Lt', '$i', '$n'), cnd)
            if g is not None and g['$i'] == i:
                sp = ('len', g['$s'])
            elif l is not None and l['$i'] == i and common.is_len_of(l['$n']):
                sp = l['$n']
        if sp is not None and lo == ('k', 0):
            pieces.append((lo, sp, v[2], i))
            pieces.append((sp, hi, v[3], i))
        else:
            pieces.append((lo, hi, v, i))
    is_len = lambda e, sq: common.is_len_of(e, sq) or e == ('len', sq)
    place = [p_ for p_ in pieces if not (p_[2][0] == 'call' and p_[2][1].endswith('Default::default'))]
    fills = [p_ for p_ in pieces if p_[2][0] == 'call' and p_[2][1].endswith('Default::default')]
    if len(place) != 1 or len(fills) != 1 or n_st not in (1, 2):
        if not probs:
            ctx.fail('R4.4', f, 'placement', f'reason=unrecognised-shape: {n_st} matrix stores, {len(place)} placement and {len(fills)} fill ranges')
            return
    else:
        lo, hi, v, i = place[0]
        pv = m(('at', '$s', '$i2'), v)
        if pv is None:
            g = m(('fld', ('down', ('call~', 'slice::get', ('$s', '$i2')), 'Some'), '0'), v)
            pv = g
        if pv is None or pv['$i2'] != i or lo != ('k', 0) or not is_len(hi, norm(pv['$s'])) or norm(pv['$s']) != ('p', 2):
            probs.append('placed value is not symbol i of the sequence for every i in 0..len')
        seq = norm(pv['$s']) if pv is not None else None
        flo, fhi, _, _ = fills[0]
        ok_fill = seq is not None and is_len(flo, seq)
        if ok_fill:
            ok_fill = common.is_product_of_calls(fhi, ['DenseMatrix::columns', 'DenseMatrix::rows'])
            mm = m(('bin', 'Mul', '$a', '$b'), fhi)
            if not ok_fill and mm is not None:
                for x, y in ((mm['$a'], mm['$b']), (mm['$b'], mm['$a'])):
                    if x == rows_e and (common.is_usize_const(y, 'C') or common.is_call_to(y, 'DenseMatrix::columns')):
                        ok_fill = True
        if not ok_fill:
            probs.append(f'fill range {X.show(flo, 40)} .. {X.show(fhi, 60)} is not len .. rows*columns')
    if rows_e is not None and not ceil_div_ok(rows_e):
        probs.append(f'R = {X.show(rows_e, 80)} is not ceil(len / C)')
    # matrix resized to R rows, rebuilt via new()
    rs = [norm(R.operand(t['args'][1])) for bi, t in f.calls() if (f.callee_short(t) or '').endswith('DenseMatrix::resize')]
    if not (rs and rows_e is not None and rs[0] == rows_e):
        probs.append('matrix is not resized to R rows')
    else:
        # on every path: a reused buffer that is already larger must shrink too, or data.rows() - wrap no longer is the row count of
        # the new sequence (seed C04-7: `if data.rows() < rows { resize }`)
        rb = [bi for bi, t in f.calls() if (f.callee_short(t) or '').endswith('DenseMatrix::resize')]
        if not all(f.dominates(rb[0], x_) for x_ in f.exits()):
            probs.append('the matrix is resized to R rows on some paths only: a reused buffer with more rows keeps them, and every consumer computes the '
                         'number of sequence rows as rows() - wrap')
    n = 0
    if not probs:
        n += 1
    (ctx.ok if not probs else ctx.fail)('R4.4', f, 'generic stripe_into placement', *([['i -> (i mod R, i div R)', 'R = ceil(len/C)']] if not probs else ['; '.join(probs)]))
    # other ceil-div sites
    sites = [('lightmotif::pli::Stripe::stripe', 'DenseMatrix::with_capacity', 0), ('lightmotif::seq::StripedSequence::sample', 'DenseMatrix::uninitialized', 0)]
    for path, callee, ai in sites:
        gs = [g for g in db.by_short.get(path, [])] or ([db.fns[path]] if path in db.fns else [])
        for g in gs:
            RG = X.Rec(g, ite=True)
            for bi, t in g.calls():
                if (g.callee_short(t) or '').endswith(callee):
                    a = norm(RG.operand(t['args'][ai]))
                    if ceil_div_ok(a):
                        n += 1
                        ctx.ok('R4.4', g, f'{callee.rsplit("::", 1)[-1]}(ceil(len / C))')
                    else:
                        ctx.fail('R4.4', g, 'row count', f'row count {X.show(a, 100)} is not ceil(len / C)', span=t['span'])
    has_sample = any(k.endswith('StripedSequence::<A, C>::sample') for k in db.fns)
    ctx.floor('R4.4', n, 2 + (1 if has_sample else 0), 'ceil-div row-count sites')


def r45(db, ctx):
    ctx.rule('R4.5', 'configure_wrap(m): only when m > wrap: R := rows - wrap (before resizing); resize to rows + m - wrap; for i < m, j < C-1: cell(R+i, j) := cell(i, j+1); cell(R+i, C-1) := default; wrap := m')
    f = db.fn('lightmotif::seq::StripedSequence::configure_wrap')
    R = X.Rec(f, keep_names=True)
    probs = []
    st = X.stores(f, R)
    wr = [s for s in st if m(('fld', ('p', 1), 'wrap'), norm(s['target'])) is not None]
    cells = [s for s in st if norm(s['target'])[0] == 'idx']
    rs = [(bi, t) for bi, t in f.calls() if (f.callee_short(t) or '').endswith('DenseMatrix::resize')]
    if len(wr) != 1 or len(cells) != 2 or len(rs) != 1:
        ctx.fail('R4.5', f, 'summary', f'reason=unrecognised-shape: {len(wr)} wrap stores, {len(cells)} cell stores, {len(rs)} resizes')
        return
    # guard m > wrap on everything
    for blk in [wr[0]['block'], rs[0][0]] + [c['block'] for c in cells]:
        rels = G.relations(f, R, blk)
        if not G.holds_gt(rels, lambda e: norm(e) == ('p', 2), X.lin(('fld', ('p', 1), 'wrap'))):
            probs.append('an effect is not under the guard m > self.wrap')
            break
    if norm(wr[0]['value']) != ('p', 2):
        probs.append(f'wrap := {X.show(wr[0]["value"], 40)}, expected m')
    ra = norm(R.operand(rs[0][1]['args'][1]))
    l = X.lin(ra)
    ks = {k: v for k, v in l.items() if k != ''}
    if not (l.get('', 0) == 0 and len(ks) == 3 and any('DenseMatrix::rows' in k and v == 1 for k, v in ks.items()) and ks.get('arg2') == 1 and any('wrap' in k and v == -1 for k, v in ks.items())):
        probs.append(f'resize to {X.show(ra, 80)}, expected rows + m - wrap')
    # R computed before the resize
    # every evaluation of `rows() - wrap` (whatever the variable is called) happens before the resize call: a value computed after it
    # would already include the new rows
    pre = False
    late = False
    for l_ in range(len(f.locals)):
        for (bi, si, d) in f.defs().get(l_, []):
            e = norm(R.rvalue(d)) if si != 'term' else None
            # an evaluation of the subtraction (checked or unchecked), not a copy of a variable that holds its result
            evaluates = si != 'term' and (d.get('k') == 'bin' or (d.get('k') == 'use' and ((d['a'].get('m') or d['a'].get('c') or {}).get('pr'))))
            if evaluates and e is not None and m(('bin', 'Sub', ('call~', 'DenseMatrix::rows', ('_',)), ('fld', ('p', 1), 'wrap')), e) is not None:
                if f.dominates(bi, rs[0][0]):
                    pre = True          # statements of the resize call's own block run before its terminator
                else:
                    late = True
    pre = pre and not late
    if not pre:
        probs.append('the number of sequence rows R = rows - wrap is not computed before the resize')
    copy = dflt = None
    for c in cells:
        v = norm(c['value'])
        if v[0] == 'call' and (v[1].endswith('default_symbol') or v[1].endswith('Default::default')):
            dflt = c
        else:
            copy = c
    if not copy or not dflt:
        probs.append('expected one copied cell and one default cell')
    else:
        CA = IA.Canon(f, R)
        data = ('fld', ('p', 1), 'data')
        Rexpr = ('bin', 'Sub', ('call', 'lightmotif::dense::DenseMatrix::rows', (data,)), ('fld', ('p', 1), 'wrap'))
        tg, v = CA.canon(copy['target']), CA.canon(copy['value'])
        bt = m(('at', ('at', '$d', '$rt'), '$ct'), tg)
        bv = m(('at', ('at', '$d2', '$rs'), '$cs'), v)

        def span_of(e):
            """e = a + position of one loop: (a, lo, hi) with the position running over lo..hi, i.e. e in a+0 .. a+(hi-lo); None otherwise."""
            ps = [x for x in X.walk(e) if IA.is_pos(x)]
            if len(ps) != 1:
                return None
            ext = CA.extents.get(ps[0][1])
            Ln = _loop_with_header_or_iter(f, R, ps[0][1]) if not isinstance(ps[0][1], tuple) else None
            if not ext or len(ext) != 1 or ext[0][0] != 'sub' or Ln is None or len(_normal_exits(f, Ln)) != 1:
                return None
            l_ = X.lin(e)
            pk = X.canon_atom(ps[0])
            if l_.get(pk) != 1:
                return None
            rest = {k: v_ for k, v_ in l_.items() if k != pk and v_ != 0}
            return rest, ext[0][2], ext[0][1]
        if bt is None or bv is None or bt['$d'] != data or bv['$d2'] != data:
            probs.append(f'copy is {X.show(tg, 80)} := {X.show(v, 80)}, expected cell(R+i, j) := cell(i, j+1) of self.data')
        else:
            if not X.lin_eq(bt['$rt'], ('bin', 'Add', Rexpr, bv['$rs'])):
                probs.append(f'wrap row {X.show(bt["$rt"], 60)} is not R + source row {X.show(bv["$rs"], 40)} with R = rows - wrap')
            if not X.lin_eq(bv['$cs'], ('bin', 'Add', bt['$ct'], ('k', 1))):
                probs.append(f'source column {X.show(bv["$cs"], 40)} is not destination column {X.show(bt["$ct"], 40)} + 1')
            si = span_of(bv['$rs'])
            if not (si is not None and not si[0] and si[1] == ('k', 0) and norm(si[2]) == ('p', 2)):
                probs.append('i does not range over 0..m')
            sj = span_of(bt['$ct'])
            okj = False
            if sj is not None and not sj[0]:
                # destination columns 0 .. hi - lo  must be 0 .. C - 1
                cs_ = [x for x in X.walk(sj[2]) if common.is_usize_const(x, 'C')]
                okj = bool(cs_) and X.lin_eq(('bin', 'Sub', sj[2], sj[1]), ('bin', 'Sub', cs_[0], ('k', 1)))
            if not okj:
                probs.append('j does not range over 0..C-1')
        tg2 = CA.canon(dflt['target'])
        b2 = m(('at', ('at', '$d', '$rt'), '$last'), tg2)
        okd = False
        if b2 is not None and b2['$d'] == data and bv is not None and bt is not None:
            cs_ = [x for x in X.walk(b2['$last']) if common.is_usize_const(x, 'C')]
            okd = bool(cs_) and X.lin_eq(b2['$last'], ('bin', 'Sub', cs_[0], ('k', 1))) and X.lin_eq(b2['$rt'], ('bin', 'Add', Rexpr, bv['$rs']))
        if not okd:
            probs.append('the last column of a wrap row is not set to the default symbol')
    (ctx.ok if not probs else ctx.fail)('R4.5', f, 'wrap-row relation', *([['idempotent when m <= wrap', 'R from before the resize']] if not probs else ['; '.join(probs)]))


def r46(db, ctx):
    ctx.rule('R4.6', 'buffer reuse: stripe_into takes the matrix out, resizes it to R rows and rebuilds through StripedSequence::new (wrap = 0); wrap / length are written only by new and configure_wrap')
    n = 0
    # who writes wrap / length
    for f in db.fns.values():
        if f.crate != 'lightmotif' or f.promoted_of or f.raw.get('derived'):
            continue
        R = None
        for blk in f.blocks:
            for st in blk['stmts']:
                if st['k'] == 'assign' and st['rv']['k'] == 'agg' and st['rv'].get('adt') == 'lightmotif::seq::StripedSequence':
                    R = R or X.Rec(f)
                    ops = dict(zip(st['rv']['fields'], [norm(R.operand(o)) for o in st['rv']['ops']]))
                    if f.path.endswith('StripedSequence::<A, C>::new') and ops.get('wrap') == ('k', 0) and ops.get('length') == ('p', 2):
                        n += 1
                        ctx.ok('R4.6', f, 'StripedSequence::new sets wrap = 0, length = given length')
                    else:
                        ctx.fail('R4.6', f, 'StripedSequence aggregate', f'constructed with wrap = {X.show(ops.get("wrap"), 30)}, length = {X.show(ops.get("length"), 30)} outside new()', span=st.get('span'))
        if 'seq::StripedSequence' in f.path:
            R = R or X.Rec(f)
            for s in X.stores(f, R):
                tg = norm(s['target'])
                if tg[0] == 'fld' and tg[2] in ('wrap', 'length') and tg[1] == ('p', 1) and not f.path.endswith('configure_wrap'):
                    ctx.fail('R4.6', f, f'store to {tg[2]}', f'{f.name} writes self.{tg[2]}', span=s['span'])
    # new(): Err when rows*columns < length
    f = db.fn('lightmotif::seq::StripedSequence::new')
    # stripe_into implementations
    impls = [g for g in db.by_short.get('lightmotif::pli::Stripe::stripe_into', []) if g.raw.get('trait_default_of')] + [db.fn(AVX2 + 'stripe_avx2')]
    for g in impls:
        cs = [g.callee_short(t) or '' for _, t in g.calls()]
        need = ['core::mem::take', 'lightmotif::seq::StripedSequence::into_matrix', 'lightmotif::dense::DenseMatrix::resize', 'lightmotif::seq::StripedSequence::new']
        miss = [x for x in need if x not in cs]
        # must-pass-through: every path to a return passes the take() that empties the destination buffer
        takes = [bi for bi, t in g.calls() if (g.callee_short(t) or '') == 'core::mem::take']
        escapes = [e for e in g.exits() if not any(g.dominates(tb, e) for tb in takes)]
        if miss:
            ctx.fail('R4.6', g, 'reuse protocol', f'missing {miss}')
        elif escapes:
            ctx.fail('R4.6', g, 'return without resetting the destination',
                     'a path returns without passing through std::mem::take(striped): a reused buffer keeps the previous sequence (length, wrap, rows) instead of the new one',
                     span=g.blocks[escapes[0]]['term'].get('span'))
        else:
            n += 1
            ctx.ok('R4.6', g, 'take -> into_matrix -> resize(R) -> StripedSequence::new', ['wrap reset by construction'])
    ctx.floor('R4.6', n, 3, 'reuse protocol sites')


def r48(db, ctx):
    ctx.rule('R4.8', 'configure(motif) is configure_wrap(motif.len() - 1) for every non-empty motif: the call is guarded by non-emptiness only '
                     '(a motif as long as the sequence still has one position, which reads M - 1 look-ahead rows)')
    fs = [f for f in db.fns.values() if f.path.startswith('lightmotif::seq::StripedSequence::') and f.name == 'configure' and not f.promoted_of and f.kind != 'Closure']
    if len(fs) != 1:
        ctx.fail('R4.8', 'lightmotif::seq::StripedSequence::configure', 'anchor', f'reason=anchor-missing: {len(fs)} bodies')
        return
    f = fs[0]
    R = X.Rec(f)
    calls = [(bi, t) for bi, t in f.calls() if (f.callee_short(t) or '').endswith('StripedSequence::configure_wrap')]
    if len(calls) != 1:
        ctx.fail('R4.8', f, 'delegation', f'reason=unrecognised-shape: {len(calls)} calls to configure_wrap')
        return
    bi, t = calls[0]
    arg = norm(R.at(bi).operand(t['args'][1]))
    is_len = lambda e_: norm(e_)[0] == 'call' and norm(e_)[1].rsplit('::', 1)[-1] in ('len', 'rows') and X.strip_refs(norm(e_)[2][0]) in (('p', 2), ('fld', ('p', 2), 'data'))
    probs = []
    mm = m(('bin', 'Sub', '$n', ('k', 1)), arg)
    sat = m(('call~', 'saturating_sub', ('$n', ('k', 1))), arg)
    chk = m(('fld', ('down', ('call~', 'checked_sub', ('$n', ('k', 1))), 'Some'), '0'), arg)
    if not ((mm is not None and is_len(mm['$n'])) or (sat is not None and is_len(sat['$n'])) or (chk is not None and is_len(chk['$n']))):
        probs.append(f'configure_wrap is called with {X.show(arg, 80)}, expected motif.len() - 1')
    for r in G.relations(f, R, bi):
        ok = False
        if r[0] in ('true', 'false') and norm(r[1])[0] == 'call' and norm(r[1])[1].endswith('is_empty') and X.strip_refs(norm(r[1])[2][0]) in (('p', 2), ('fld', ('p', 2), 'data')):
            ok = r[0] == 'false'
        elif r[0] in ('ne', 'gt') and is_len(r[1]) and norm(r[2]) == ('k', 0):
            ok = True
        elif r[0] in ('ne', 'lt') and is_len(r[2]) and norm(r[1]) == ('k', 0):
            ok = True
        elif r[0] == 'ge' and is_len(r[1]) and norm(r[2]) == ('k', 1):
            ok = True
        elif r[0] == 'le' and is_len(r[2]) and norm(r[1]) == ('k', 1):
            ok = True
        if r[0] == 'switch':
            d_ = norm(r[1])
            # match motif.len() { 0 => (), n => .. }   |   if let Some(m) = motif.len().checked_sub(1) { .. }
            if is_len(d_) and r[2] in (('notin', [0]),):
                ok = True
            cs = m(('discr', ('call~', 'checked_sub', ('$n', ('k', 1)))), d_)
            if cs is not None and is_len(cs['$n']) and r[2] in (('eq', 1), ('notin', [0])):
                ok = True
        if not ok:
            shown = X.show(norm(r[1]), 60) + (' ' + r[0] + ' ' + X.show(norm(r[2]), 60) if len(r) > 3 and isinstance(r[2], tuple) else f' is {r[0]}')
            probs.append(f'the look-ahead rows are only added when {shown}: for the other non-empty motifs the sequence keeps too few look-ahead rows '
                         '(every kernel reads M - 1 of them for the last position)')
    if probs:
        ctx.fail('R4.8', f, 'configure -> configure_wrap', '; '.join(probs), span=t['span'])
    else:
        ctx.ok('R4.8', f, 'configure_wrap(motif.len() - 1) under motif non-empty only', ['single delegation', 'no further guard'])


def stripe_rules(db, ctx):
    """Striping itself (shared into C01: the kernels score the striped matrix, not the sequence)."""
    r41_42(db, ctx)
    r43(db, ctx)
    r44(db, ctx)


def lookahead_rules(db, ctx):
    """What every consumer of a configured striped sequence relies on (shared into C01, C02, C03, C16)."""
    r45(db, ctx)
    r48(db, ctx)


def run(db, ctx):
    r48(db, ctx)
    r41_42(db, ctx)
    r43(db, ctx)
    r44(db, ctx)
    r45(db, ctx)
    r46(db, ctx)
    # R4.7: dispatcher arm + SymbolCount / index formulas (shared with C01)
    before = len(ctx.obligations)
    vb = len(ctx.violations)
    C01.r15(db, ctx)
    C01.r14(db, ctx)
    for o in ctx.obligations[before:]:
        o['rule'] = 'R4.7'
    for v in ctx.violations[vb:]:
        v['key'] = v['key'].replace(v['rule'], 'R4.7')
        v['rule'] = 'R4.7'
    ctx.rules_text['R4.7'] = 'dispatcher arms (stripe / encode) and the index <-> (row, col) formulas of StripedSequence (shared with R1.4 / R1.5)'
    ctx.rules_text.pop('R1.4', None)
    ctx.rules_text.pop('R1.5', None)
    for k in ('R1.4', 'R1.5'):
        if k in ctx.floors:
            ctx.floors['R4.7-' + k] = ctx.floors.pop(k)
    # the striped matrix is compared, cloned and iterated through its row vector: a resize must change the vector with the row count (seed C04-9)
    from . import C19
    common.shared_rule(db, ctx, C19.storage_rules, 'R4.9', 'every change of a DenseMatrix row count goes with the same change of its row vector, and the flat views span rows*stride '
                       'elements (shared with R19.2 / R19.5)', ['R19.2', 'R19.5'])
