"""Single-edit mutants (must fire, naming the rule) and benign edits (must stay silent)."""
ABC = 'lightmotif/src/abc.rs'
PWM = 'lightmotif/src/pwm/mod.rs'

MUTANTS = [
    # ---- C05
    dict(id='c05-accept-lowercase', prop='C05', rule='R5.1', file=ABC, old="b'N' => Ok(Nucleotide::N),", new="b'N' | b'n' => Ok(Nucleotide::N),"),
    dict(id='c05-U-as-T', prop='C05', rule='R5.1', file=ABC, old="b'T' => Ok(Nucleotide::T),", new="b'T' | b'U' => Ok(Nucleotide::T),"),
    dict(id='c05-symbols-order', prop='C05', rule='R5.1', file=ABC,
         old="            Nucleotide::T,\n            Nucleotide::G,\n            Nucleotide::N,", new="            Nucleotide::G,\n            Nucleotide::T,\n            Nucleotide::N,"),
    dict(id='c05-as-str-order', prop='C05', rule='R5.1', file=ABC, old='"ACTGN"', new='"ACGTN"'),
    dict(id='c05-protein-swap', prop='C05', rule='R5.1', file=ABC, old="b'V' => Ok(AminoAcid::V),", new="b'V' => Ok(AminoAcid::W),"),
    dict(id='c05-err-wrong-char', prop='C05', rule='R5.1', file=ABC, old="_ => Err(InvalidSymbol(c as char)),", new="_ => Err(InvalidSymbol('?')),", occ=0),
    # ---- C10
    dict(id='c10-complement-GT', prop='C10', rule='R10.1', file=ABC, old="Nucleotide::G => Nucleotide::C,", new="Nucleotide::G => Nucleotide::T,"),
    dict(id='c10-drop-rev', prop='C10', rule='R10.2', file=PWM, old="for (i, row) in self.data.iter().rev().enumerate() {", new="for (i, row) in self.data.iter().enumerate() {", occ=2),
    dict(id='c10-complement-both', prop='C10', rule='R10.2', file=PWM, old="data[i][s.as_index()] = row[A::complement(s).as_index()];", new="data[i][A::complement(s).as_index()] = row[A::complement(s).as_index()];", occ=1),
    dict(id='c10-complement-none', prop='C10', rule='R10.2', file=PWM, old="data[i][s.as_index()] = row[A::complement(s).as_index()];", new="data[i][s.as_index()] = row[s.as_index()];", occ=3),
    dict(id='c10-rev-outside-enumerate', prop='C10', rule='R10.2', file=PWM, old="for (i, row) in self.data.iter().rev().enumerate() {", new="for (i, row) in self.data.iter().enumerate().rev() {", occ=0),
]

BENIGN = [
    dict(id='c10-index-form', prop='C10', file=PWM, occ=0,
         old="""        for (i, row) in self.data.iter().rev().enumerate() {
            for &s in A::symbols() {
                data[i][s.as_index()] = row[A::complement(s).as_index()];
            }
        }""",
         new="""        for i in 0..self.data.rows() {
            let row = &self.data[self.data.rows() - 1 - i];
            for &s in A::symbols() {
                data[i][s.as_index()] = row[A::complement(s).as_index()];
            }
        }"""),
    dict(id='c10-swap-direction', prop='C10', file=PWM, occ=0,
         old="data[i][s.as_index()] = row[A::complement(s).as_index()];", new="data[i][A::complement(s).as_index()] = row[s.as_index()];"),
]
