"""C19 — dense matrix storage keeps rows aligned and contents intact across operations."""
import re
from lm.db import short
from lm import expr as X, guards as G
from lm.match import norm, m
from . import common

LEVEL_NOTE = ('decides: compiler-computed layout of the row type for a grid of (T,C); rows==data.len() paired updates; derives; '
              'accessor and iterator delegation; flat-view length formula. Trusted: Vec/allocator, generic-array, rustc layout.')

LEN_CHANGERS = ('resize_with', 'resize', 'set_len', 'push', 'pop', 'truncate', 'clear', 'insert', 'remove', 'swap_remove',
                'extend', 'extend_from_slice', 'append', 'drain', 'retain', 'retain_mut', 'split_off', 'dedup', 'dedup_by',
                'dedup_by_key', 'extend_from_within', 'splice')
DM = 'lightmotif::dense::DenseMatrix'


def dm_fields(db):
    adt = db.adts.get(DM)
    if not adt or adt['kind'] != 'Struct':
        return None
    fs = adt['variants'][0]['fields']
    vec = [f for f in fs if 'alloc::vec::Vec<' in f['ty']]
    cnt = [f for f in fs if f['ty'] == 'usize']
    if len(vec) != 1 or len(cnt) != 1:
        return None
    row_ty = vec[0]['ty'][vec[0]['ty'].index('Vec<') + 4:-1]
    return {'data': vec[0]['name'], 'rows': cnt[0]['name'], 'row_ty': row_ty, 'row_adt': short(row_ty)}


def r191(db, ctx, F):
    ctx.rule('R19.1', 'compiler-computed layout of the row type for every (T,C) of the grid: align 32 (x86-64), size a multiple of the '
                      'alignment and of size_of(T), size >= C*size_of(T), array field at offset 0; stride() = size_of(Row)/size_of(T)')
    n = 0
    lay = db.layouts
    for g in db.layout_grid:
        ent = lay[g['first']:g['first'] + g['count']]
        rows = [e for e in ent if e.get('adt') == F['row_adt']]
        site = f"Row<{g['elem'].rsplit('::', 1)[-1]}, U{g['c']}>"
        if len(rows) != 1:
            ctx.fail('R19.1', DM, site, f'reason=anchor-missing: no layout for the row type of DenseMatrix<{g["elem"]},U{g["c"]}>')
            continue
        r = rows[0]
        es = g['elem_size']
        probs = []
        if r['align'] != 32:
            probs.append(f'align {r["align"]} != 32')
        if r['size'] % r['align'] != 0:
            probs.append(f'size {r["size"]} not a multiple of align {r["align"]}')
        if r['size'] % es != 0:
            probs.append(f'size {r["size"]} not a multiple of the element size {es}')
        if r['size'] < g['c'] * es:
            probs.append(f'size {r["size"]} < C*size_of(T) = {g["c"] * es}')
        if len(r['fields']) != 1 or r['fields'][0]['offset'] != 0 or r['fields'][0].get('size') != g['c'] * es:
            probs.append(f'fields {[(f["name"], f["offset"], f.get("size")) for f in r["fields"]]}: expected one array field of {g["c"] * es} bytes at offset 0')
        if probs:
            ctx.fail('R19.1', F['row_adt'], site, '; '.join(probs))
        else:
            n += 1
            ctx.ok('R19.1', F['row_adt'], site, [f'size={r["size"]}', f'align={r["align"]}', f'stride={r["size"] // es}>=C={g["c"]}'])
    ctx.floor('R19.1', n, 28, 'row layouts (T x C grid)')
    # stride formula
    f = db.fn(DM + '::stride')
    e = common.return_expr_single_path_allow(f)
    ok = False
    if e is not None:
        en = norm(e)
        if en[0] == 'bin' and en[1] == 'Div' and en[2][0] == 'call' and en[3][0] == 'call' \
                and en[2][1].endswith('mem::size_of') and en[3][1].endswith('mem::size_of'):
            full_a = e_full(e, 2)
            full_b = e_full(e, 3)
            if full_a and full_b and re.search(r'size_of::<' + re.escape(F['row_ty'].split('<')[0]) + r'<T, C>>', full_a) and full_b.endswith('size_of::<T>'):
                ok = True
    if ok:
        ctx.ok('R19.1', f, 'stride() = size_of::<Row<T,C>>() / size_of::<T>()', ['row type is the Vec element type of the data field'])
    else:
        ctx.fail('R19.1', f, 'stride formula', f'stride() is not size_of(row type)/size_of(T): {X.show(e) if e else None}')


def e_full(e, i):
    x = e[i]
    while x[0] in ('ref', 'deref', 'cast'):
        x = x[1]
    return x[3] if x[0] == 'call' and len(x) > 3 else None


def r192(db, ctx, F):
    ctx.rule('R19.2', 'every function that changes the length of the row vector assigns the row count the same value on all paths '
                      '(rows == data.len()), and the row count is written nowhere else; resize keeps old rows and default-fills new ones')
    writers = 0
    for f in db.fns.values():
        if f.crate != 'lightmotif' or f.promoted_of:
            continue
        R = None
        # (a) length-changing calls on <dm>.data
        for bi, t in f.calls():
            c = f.callee_short(t) or ''
            if not c.startswith('alloc::vec::Vec::') or c.rsplit('::', 1)[-1] not in LEN_CHANGERS:
                continue
            R = R or X.Rec(f)
            recv = norm(R.operand(t['args'][0]))
            b = m(('fld', '$base', F['data']), recv)
            if b is None or not is_dm(f, R, b['$base']):
                continue
            writers += 1
            meth = c.rsplit('::', 1)[-1]
            if meth == 'truncate':
                # truncate(n) leaves len = min(len, n): the new length is the operand only under a dominating n <= len
                nl = norm(R.operand(t['args'][1]))
                rels_ = G.relations(f, R, bi)
                le_ok = G.holds(rels_, 'le', lambda e: norm(e) == nl, lambda e: common.is_len_of(e, recv)) is not None
                if not le_ok:
                    ctx.fail('R19.2', f, 'Vec::truncate on the row vector', f'truncate({X.show(nl)}) is not dominated by {X.show(nl)} <= len: the resulting length is min(len, n), not n')
                    continue
            elif meth == 'set_len' and not f.path.endswith('::uninitialized'):
                # set_len(n) exposes rows n_old..n without initialising them: outside the one constructor whose callers overwrite every row
                # (R6.6) it may only shrink — growth has to go through resize_with(.., Default::default) so that new rows hold the default value
                nl = norm(R.operand(t['args'][1]))
                rels_ = G.relations(f, R, bi)
                if G.holds(rels_, 'le', lambda e: norm(e) == nl, lambda e: common.is_len_of(e, recv)) is None:
                    ctx.fail('R19.2', f, 'Vec::set_len on the row vector',
                             f'set_len({X.show(nl)}) can grow the row vector: the re-exposed rows keep stale or uninitialised contents instead of the default value', span=t['span'])
                    continue
            elif meth not in ('resize_with', 'set_len'):
                ctx.fail('R19.2', f, f'Vec::{meth} on the row vector', 'reason=unrecognised-shape: length change through a method whose new length is not an explicit operand')
                continue
            newlen = norm(R.operand(t['args'][1]))
            # a store <same base>.rows = newlen must post-dominate the call
            st = [s for s in X.stores(f, R) if m(('fld', b['$base'], F['rows']), norm(s['target'])) is not None]
            pd = f.postdominators()
            good = [s for s in st if norm(s['value']) == newlen and (s['block'] == bi or s['block'] in pd.get(bi, ()) or f.dominates(s['block'], bi))]
            if good:
                prem = [f'{F["rows"]} := {X.show(newlen)} post-dominates the call']
                if meth == 'resize_with':
                    a2 = R.operand(t['args'][2])
                    if a2[0] == 'fnitem' and a2[1].endswith('Default::default'):
                        prem.append('new rows produced by Default::default; existing rows kept (Vec::resize_with contract)')
                    else:
                        ctx.fail('R19.2', f, 'resize_with filler', f'new rows are not default-initialised: {X.show(a2)}')
                        continue
                ctx.ok('R19.2', f, f'Vec::{meth}(.., {X.show(newlen)}) paired with row-count update', prem)
            else:
                ctx.fail('R19.2', f, f'Vec::{meth} on the row vector',
                         f'no assignment {F["rows"]} = {X.show(newlen)} on every path after the call (rows would disagree with data.len())', span=t['span'])
        # (b) stores to .rows must be paired with a length change of the same operand
        R2 = R or X.Rec(f)
        for s in X.stores(f, R2):
            b = m(('fld', '$base', F['rows']), norm(s['target']))
            if b is None or not is_dm(f, R2, b['$base']):
                continue
            val = norm(s['value'])
            paired = False
            same = []
            for bi, t in f.calls():
                c = f.callee_short(t) or ''
                if c in ('alloc::vec::Vec::resize_with', 'alloc::vec::Vec::set_len', 'alloc::vec::Vec::truncate') and \
                        m(('fld', b['$base'], F['data']), norm(R2.operand(t['args'][0]))) is not None and norm(R2.operand(t['args'][1])) == val:
                    same.append(bi)
                    if f.dominates(bi, s['block']) or bi in f.postdominators().get(s['block'], ()):
                        paired = True
            if not paired and same:
                # several alternative length changes (grow in one branch, shrink in the other): every path to the store passes through one
                seen_, st_ = set(), [0]
                while st_:
                    x_ = st_.pop()
                    if x_ in seen_ or x_ in same:
                        continue
                    seen_.add(x_)
                    st_.extend(f.succs(x_))
                paired = s['block'] not in seen_
            if not paired:
                ctx.fail('R19.2', f, f'store to .{F["rows"]}', f'row count set to {X.show(val)} without a dominating length change of the row vector to the same value', span=s['span'])
        # (c) aggregates constructing a DenseMatrix: (Vec::new()/with_capacity(_), 0)
        for blk in f.blocks:
            for stt in blk['stmts']:
                if stt['k'] == 'assign' and stt['rv']['k'] == 'agg' and stt['rv'].get('adt') == DM:
                    rv = stt['rv']
                    ops = dict(zip(rv['fields'], [norm(R2.operand(o)) for o in rv['ops']]))
                    d, r = ops.get(F['data']), ops.get(F['rows'])
                    if d and r and d[0] == 'call' and d[1].endswith('::clone') and r[0] == 'call' and r[1].endswith('::clone') \
                            and m(('fld', '$b', F['data']), d[2][0]) and m(('fld', '$b', F['data']), d[2][0]) == m(('fld', '$b', F['rows']), r[2][0]):
                        ctx.ok('R19.2', f, 'clone copies the row vector and its row count from the same matrix', ['Vec::clone preserves len'])
                    elif d and d[0] == 'call' and d[1] in ('alloc::vec::Vec::new', 'alloc::vec::Vec::with_capacity') and r == ('k', 0):
                        writers += 1
                        ctx.ok('R19.2', f, 'DenseMatrix { empty Vec, rows: 0 }', ['Vec::new/with_capacity has length 0'])
                    elif d and d[0] == 'v' and local_vec_len(f, R2, d[1], stt, blk) is not None and local_vec_len(f, R2, d[1], stt, blk)[0] == r:
                        # let mut data = Vec::new(); data.resize_with(n, Default::default) | data.set_len(n); Self { data, rows: n }
                        how = local_vec_len(f, R2, d[1], stt, blk)[1]
                        writers += 1
                        ctx.ok('R19.2', f, f'DenseMatrix {{ data, rows: {X.show(r)} }} with data.len() == {X.show(r)}', [how])
                    else:
                        ctx.fail('R19.2', f, 'DenseMatrix aggregate', f'constructed with data={X.show(d) if d else None}, rows={X.show(r) if r else None}: cannot show rows == data.len()', span=stt.get('span'))
    ctx.floor('R19.2', writers, 4, 'writers of the row vector length / row count')


def local_vec_len(f, R, l, agg_stmt, agg_blk):
    """Length of the local Vec `l` when it is moved into the aggregate: it was created empty (Vec::new / with_capacity) and its length was
    changed by exactly one call that dominates the aggregate: resize_with(n, Default::default) or set_len(n).  Returns (n, how) or None."""
    ds = f.defs().get(l, [])
    if len(ds) != 1 or ds[0][1] != 'term':
        return None
    e = norm(R.call(ds[0][2]))
    if not (e[0] == 'call' and e[1] in ('alloc::vec::Vec::new', 'alloc::vec::Vec::with_capacity')):
        return None
    ab = f.blocks.index(agg_blk)
    changers = []
    for bi, t in f.calls():
        c = f.callee_short(t) or ''
        if c.startswith('alloc::vec::Vec::') and t['args']:
            a0 = t['args'][0]
            pl = a0.get('m') or a0.get('c')
            recv = norm(R.operand(a0))
            # receiver is &mut l (possibly through a temporary reference)
            is_l = recv == ('v', l) or (pl is not None and any(x == ('v', l) for x in X.walk(recv)))
            if is_l and c.rsplit('::', 1)[-1] in LEN_CHANGERS:
                changers.append((bi, t, c.rsplit('::', 1)[-1]))
    if len(changers) != 1:
        return None
    bi, t, meth = changers[0]
    if not f.dominates(bi, ab) or meth not in ('resize_with', 'set_len'):
        return None
    if meth == 'resize_with':
        a2 = R.operand(t['args'][2])
        if not (a2[0] == 'fnitem' and a2[1].endswith('Default::default')):
            return None
    return norm(R.operand(t['args'][1])), f'Vec::new/with_capacity (len 0) then {meth}(n) dominating the construction; no other length change'


def is_dm(f, R, base):
    """Is expression `base` of type DenseMatrix (or a reference to one)?"""
    while base[0] in ('ref', 'deref'):
        base = base[1]
    if base[0] in ('p', 'v'):
        ty = f.local_ty(base[1])
        return DM + '<' in ty or ty.endswith(DM)
    if base[0] == 'call':
        return True  # conservative: treat unknown producers as matrices
    if base[0] == 'fld':
        return False
    return True


def r193(db, ctx, F):
    ctx.rule('R19.3', 'Clone / PartialEq / Eq of the matrix and its row type are the derived ones (equality and cloning see logical cells only)')
    n = 0
    for adt in (DM, F['row_adt']):
        for tr in ('core::clone::Clone', 'core::cmp::PartialEq', 'core::cmp::Eq'):
            ims = [im for im in db.impls if im.get('trait_def') == tr and short(im['self_ty']) == adt]
            if not ims:
                ctx.fail('R19.3', adt, f'impl {tr}', 'reason=anchor-missing: no such impl')
                continue
            for im in ims:
                if im['derived']:
                    n += 1
                    ctx.ok('R19.3', adt, f'{tr.rsplit("::", 1)[-1]} is #[derive]d', ['automatically_derived'])
                elif tr == 'core::cmp::Eq' and not im.get('items'):
                    n += 1
                    ctx.ok('R19.3', adt, 'Eq is a marker impl (no methods): equality is what PartialEq defines', ['empty impl'])
                elif tr == 'core::cmp::PartialEq' and adt == DM:
                    why = handwritten_eq(db, im, F)
                    if why is None:
                        n += 1
                        ctx.ok('R19.3', adt, 'hand-written PartialEq compares the row counts and every pair of corresponding rows', ['row count && all rows'])
                    else:
                        ctx.fail('R19.3', adt, f'impl {tr}', why)
                else:
                    ctx.fail('R19.3', adt, f'impl {tr}', 'hand-written impl: cannot show it depends on the logical cells only (reason=unrecognised-shape)')
    row = db.adts.get(F['row_adt'])
    if row and len(row['variants'][0]['fields']) == 1:
        ctx.ok('R19.3', F['row_adt'], 'row type has the array as its single field (padding is not a field)')
    else:
        ctx.fail('R19.3', F['row_adt'], 'row fields', 'row type has more than one field')
    ctx.floor('R19.3', n, 6, 'derived impls')


def handwritten_eq(db, im, F):
    """None when a hand-written `PartialEq::eq` of the matrix is `same row count && every pair of corresponding rows equal`
    (or compares the row vectors themselves, which does both); else the reason."""
    from lm import reduce as RD
    path = (im.get('items') or {}).get('eq')
    f = db.fns.get(path) if path else None
    if f is None:
        return 'reason=unrecognised-shape: eq body not found'
    if (im.get('items') or {}).get('ne'):
        return 'reason=unrecognised-shape: ne is overridden as well'
    R = X.Rec(f, db, ite=True)
    C = RD.RCanon(db, f, R)
    e = common.return_expr_single_path_allow(f)
    if e is None:
        d = f.defs().get(0, [])
        e = R.if_converted(0, 0) if len(d) == 2 else None
    if e is None:
        return 'reason=unrecognised-shape: eq has several return paths'
    alts = G.expr_alternatives(norm(e), True)
    if len(alts) != 1:
        return 'reason=unrecognised-shape: eq is not a conjunction'
    count = lambda x, p_: x in (('call', 'lightmotif::dense::DenseMatrix::rows', (('p', p_),)), ('fld', ('p', p_), F['rows'])) or \
        common.is_len_of(x, ('fld', ('p', p_), F['data']))
    has_len = has_vec = has_all = False
    for r in alts[0]:
        if r[0] == 'eq':
            a_, b_ = norm(r[1]), norm(r[2])
            if (count(a_, 1) and count(b_, 2)) or (count(a_, 2) and count(b_, 1)):
                has_len = True
            if {a_, b_} == {('fld', ('p', 1), F['data']), ('fld', ('p', 2), F['data'])}:
                has_vec = True          # Vec == Vec compares the lengths and every element
        if r[0] == 'true' and isinstance(r[1], tuple) and r[1][0] == 'call' and r[1][1].endswith('Iterator::all') and len(r[1][2]) == 2:
            L = RD._fresh()
            el = C.elem_of(r[1][2][0], L)
            body = RD.apply_fn(db, r[1][2][1], [el[0]]) if el is not None else None
            if body is not None and el[0][0] == 'agg' and len(el[0][2]) == 2:
                x_, y_ = el[0][2]
                rel = G.as_relation(C.canon(body), True)
                rows_of = lambda v, p_: v[0] == 'at' and v[2] == ('pos', L) and norm(v[1]) in (('p', p_), ('fld', ('p', p_), F['data']))
                if rel[0] == 'eq' and {C.canon(rel[1]), C.canon(rel[2])} == {x_, y_} and ((rows_of(x_, 1) and rows_of(y_, 2)) or (rows_of(x_, 2) and rows_of(y_, 1))):
                    has_all = True
    if has_vec or (has_len and has_all):
        return None
    if has_all:
        return ('equality compares the rows pairwise but not the row counts: `zip` stops at the shorter matrix, so a matrix equals every matrix it is a '
                'row-prefix of (an empty matrix equals everything)')
    return 'reason=unrecognised-shape: hand-written eq is neither `rows == rows && all rows equal` nor a comparison of the row vectors'


def r194(db, ctx, F):
    ctx.rule('R19.4', 'Index/IndexMut return the array of data[i]; coordinates index data[row][col]; iterators delegate next/next_back/len to the slice iterator of the row vector')
    n = 0
    arr = db.adts[F['row_adt']]['variants'][0]['fields'][0]['name']
    pats = {
        'Index<usize>>::index': ('call~', ('as_slice',), (('fld', ('call~', 'Index::index', (('fld', ('p', 1), F['data']), ('p', 2))), arr),)),
        'IndexMut<usize>>::index_mut': ('call~', ('as_mut_slice',), (('fld', ('call~', 'IndexMut::index_mut', (('fld', ('p', 1), F['data']), ('p', 2))), arr),)),
        'Index<lightmotif::dense::MatrixCoordinates>>::index': ('idx', ('fld', ('call~', 'Index::index', (('fld', ('p', 1), F['data']), ('fld', ('p', 2), 'row'))), arr), ('fld', ('p', 2), 'col')),
        'IndexMut<lightmotif::dense::MatrixCoordinates>>::index_mut': ('idx', ('fld', ('call~', 'IndexMut::index_mut', (('fld', ('p', 1), F['data']), ('fld', ('p', 2), 'row'))), arr), ('fld', ('p', 2), 'col')),
    }
    for suffix, pat in pats.items():
        fs = [f for f in db.fns.values() if f.path.startswith('<' + DM + '<T, C> as core::ops::index::') and f.path.endswith(suffix)]
        if len(fs) != 1:
            ctx.fail('R19.4', DM, suffix, f'reason=anchor-missing: {len(fs)} bodies')
            continue
        f = fs[0]
        e = common.return_expr_single_path_allow(f)
        alt = None
        if 'MatrixCoordinates' in suffix:
            # self[row][col] through the matrix's own Index<usize> / IndexMut<usize> (checked above: the C logical cells of data[row])
            alt = ('idx', ('call~', ('Index::index', 'IndexMut::index_mut'), (('p', 1), ('fld', ('p', 2), 'row'))), ('fld', ('p', 2), 'col'))
        if alt is None:
            # through the iterator's own projection (Iter::get / IterMut::get = .a.as_slice(), checked below)
            alt = ('call~', ('Iter::get', 'IterMut::get'), (('call~', ('Index::index', 'IndexMut::index_mut'), (('fld', ('p', 1), F['data']), ('p', 2))),))
        if e is not None and (m(pat, norm(e)) is not None or (alt is not None and m(alt, norm(e)) is not None)):
            n += 1
            ctx.ok('R19.4', f, 'accessor returns the addressed logical cell(s)', [X.show(e)])
        else:
            ctx.fail('R19.4', f, 'accessor body', f'returns {X.show(e) if e else None}')
    # iterators
    for it, ctor in (('Iter', 'core::slice::iter'), ('IterMut', 'core::slice::iter_mut')):
        base = f'lightmotif::dense::{it}'
        try:
            fnew = db.fn(f'{base}::new')
            e = norm(common.return_expr_single_path_allow(fnew))
            ok = m(('agg', '_', (('call~', ctor.rsplit('::', 1)[-1], (('fld', ('p', 1), F['data']),)),)), e) is not None
            (ctx.ok if ok else ctx.fail)('R19.4', fnew, f'{it}::new wraps data.{ctor.rsplit("::", 1)[-1]}()', *([['row vector slice iterator']] if ok else [f'got {X.show(e) if e else None}']))
            fget = db.fn(f'{base}::get')
            e = norm(common.return_expr_single_path_allow(fget))
            ok = m(('call~', ('as_slice', 'as_mut_slice'), (('fld', ('p', 1), arr),)), e) is not None
            (ctx.ok if ok else ctx.fail)('R19.4', fget, f'{it}::get projects the array', *([['.a.as_slice()']] if ok else [f'got {X.show(e) if e else None}']))
            for meth, inner in (('Iterator>::next', 'Iterator::next'), ('DoubleEndedIterator>::next_back', 'DoubleEndedIterator::next_back'),
                                ('ExactSizeIterator>::len', 'ExactSizeIterator::len')):
                fs = [f for f in db.fns.values() if f.path.startswith(f'<{base}<') and f.path.endswith(meth) and f.kind == 'AssocFn']
                if len(fs) != 1:
                    ctx.fail('R19.4', base, meth, f'reason=anchor-missing: {len(fs)} bodies')
                    continue
                f = fs[0]
                e = common.return_expr_single_path_allow(f)
                e = norm(e) if e is not None else None
                inner_call = ('call~', inner, (('fld', ('p', 1), 'it'),))
                if meth.endswith('len'):
                    ok = m(inner_call, e) is not None
                else:
                    b = m(('call~', 'Option::map', (inner_call, '$clo')), e) if e is not None else None
                    ok = False
                    if b is None:
                        # the same mapping written as a match: Some(row) => Some(Self::get(row)), None => None
                        Rf_ = X.Rec(f)
                        ds_ = f.defs().get(0, [])
                        vals_ = []
                        for bi_, si_, x_ in ds_:
                            try:
                                vals_.append(norm(Rf_.at(bi_).call(x_) if si_ == 'term' else Rf_.at(bi_).rvalue(x_)))
                            except Exception:
                                vals_.append(None)
                        is_opt = lambda v_: v_ is not None and v_[0] == 'agg' and isinstance(v_[1], tuple) and v_[1][0] == 'adt' and v_[1][1].endswith('option::Option')
                        somes_ = [v_ for v_ in vals_ if is_opt(v_) and len(v_[2]) == 1]
                        nones_ = [v_ for v_ in vals_ if is_opt(v_) and len(v_[2]) == 0]
                        if len(vals_) == 2 and len(somes_) == 1 and len(nones_) == 1:
                            pl = norm(somes_[0][2][0])
                            bb = m(('call', f'{base}::get', (('fld', ('down', '$n', 'Some'), '0'),)), pl) if pl[0] == 'call' and len(pl) >= 3 else None
                            if pl[0] == 'call' and pl[1] == f'{base}::get' and len(pl[2]) == 1:
                                a_ = norm(pl[2][0])
                                if a_[0] == 'fld' and a_[1][0] == 'down' and a_[1][2] == 'Some' and str(a_[2]) == '0' and m(inner_call, norm(a_[1][1])) is not None:
                                    ok = True
                    if b and b['$clo'][0] == 'agg':
                        clo = [c for c in db.closures_of(f)]
                        if len(clo) == 1:
                            ce = norm(common.return_expr_single_path_allow(clo[0]))
                            ok = ce[0] == 'call' and ce[1] == f'{base}::get' and ce[2][0] == ('p', 2)
                if ok:
                    n += 1
                    ctx.ok('R19.4', f, f'{meth.split(">::")[1]} delegates to {inner} of the row iterator', ['map(Self::get)'] if not meth.endswith('len') else [])
                else:
                    ctx.fail('R19.4', f, 'iterator delegation', f'{meth} does not delegate to {inner}: {X.show(e) if e else None}')
            # any further method of the iterator traits that the impl overrides (size_hint, nth, nth_back, count, ..) forwards to the method
            # of the same name of the wrapped row iterator: a forward method answered by a backward one (or vice versa) changes which rows
            # `rev().skip(k)`, `step_by` and `nth` visit
            for f in db.fns.values():
                if not (f.path.startswith(f'<{base}<') and ' as core::iter::traits::' in f.path and f.kind == 'AssocFn') or f.promoted_of:
                    continue
                mname = f.path.rsplit('::', 1)[-1]
                if mname in ('next', 'next_back', 'len'):
                    continue
                Rf = X.Rec(f)
                inner_calls = [(f.callee_short(t) or '') for _, t in f.calls() if t['args'] and m(('fld', ('p', 1), 'it'), norm(Rf.operand(t['args'][0]))) is not None]
                if not inner_calls:
                    ctx.fail('R19.4', f, 'iterator delegation', f'reason=unrecognised-shape: {mname} does not go through the wrapped row iterator')
                elif all(c.rsplit('::', 1)[-1] == mname for c in inner_calls):
                    ctx.ok('R19.4', f, f'{mname} delegates to {mname} of the row iterator')
                else:
                    ctx.fail('R19.4', f, 'iterator delegation', f'{mname} is answered by {sorted(set(c.rsplit("::", 1)[-1] for c in inner_calls))} of the row iterator: '
                             'rows are taken from the wrong end / in the wrong order')
        except KeyError as ex:
            ctx.fail('R19.4', base, 'iterator pieces', f'reason=anchor-missing: {ex}')
    ctx.floor('R19.4', n, 10, 'accessor / iterator delegation instances')


def r195(db, ctx, F):
    ctx.rule('R19.5', 'ravel/ravel_mut expose rows()*stride() elements from the row vector base pointer; fill goes through ravel_mut; '
                      'from_rows overwrites every uninitialised row')
    n = 0
    for nm, ptr, ctor in (('ravel', 'as_ptr', 'from_raw_parts'), ('ravel_mut', 'as_mut_ptr', 'from_raw_parts_mut')):
        f = db.fn(f'{DM}::{nm}')
        e = norm(common.return_expr_single_path_allow(f))
        pat = ('call~', ctor, (('call~', 'Vec::' + ptr, (('fld', ('p', 1), F['data']),)), '$len'))
        b = m(pat, e)
        ok = False
        if b:
            ln = b['$len']
            # rows() is the trivial getter of the `rows` field (R19.2 keeps the field equal to data.len()): both spellings denote the same quantity
            fs = []

            def factors(x):
                if x[0] == 'bin' and x[1] in ('Mul', 'MulUnchecked'):
                    factors(x[2]); factors(x[3])
                else:
                    fs.append(x)
            factors(ln)
            is_rows = lambda x: m(('call~', 'DenseMatrix::rows', (('p', 1),)), x) is not None or x == ('fld', ('p', 1), F['rows'])
            is_stride = lambda x: m(('call~', 'DenseMatrix::stride', (('p', 1),)), x) is not None
            ok = len(fs) == 2 and ((is_rows(fs[0]) and is_stride(fs[1])) or (is_rows(fs[1]) and is_stride(fs[0])))
        if ok:
            n += 1
            ctx.ok('R19.5', f, f'{nm}: {ctor}(data.{ptr}(), rows()*stride())', ['R19.1: rows are contiguous Row-sized blocks'])
        else:
            ctx.fail('R19.5', f, 'flat view', f'not {ctor}(data.{ptr}(), rows()*stride()): {X.show(e) if e else None}')
    f = db.fn(f'{DM}::fill')
    calls = [f.callee_short(t) for _, t in f.calls()]
    if f'{DM}::ravel_mut' in calls and any(c and c.endswith('slice::fill') for c in calls):
        n += 1
        ctx.ok('R19.5', f, 'fill = ravel_mut().fill(value)')
    else:
        ctx.fail('R19.5', f, 'fill', f'does not fill through ravel_mut: calls {calls}')
    # from_rows
    f = db.fn(f'{DM}::from_rows')
    R = X.Rec(f)
    uninit = [(bi, t) for bi, t in f.calls() if f.callee_short(t) == f'{DM}::uninitialized']
    cps = [(bi, t) for bi, t in f.calls() if (f.callee_short(t) or '').endswith('copy_from_slice')]
    ok = False
    why = ''
    if len(uninit) == 1 and len(cps) == 1:
        ln = norm(R.operand(uninit[0][1]['args'][0]))
        dst = norm(R.operand(cps[0][1]['args'][0]))
        src = norm(R.operand(cps[0][1]['args'][1]))
        bl = m(('call~', 'ExactSizeIterator::len', ('$it',)), ln)
        bd = m(('call~', 'index_mut', ('$m', ('fld', ('elem', ('call~', 'enumerate', ('$it2',)), '$L'), '0'))), dst)
        bs = m(('fld', ('elem', ('call~', 'enumerate', ('$it3',)), '$L2'), '1'), src)
        if bl and bd and bs and bl['$it'] == bd['$it2'] == bs['$it3']:
            ok = True
        else:
            # explicit counter form: let mut i = 0; for row in it { dense[i].copy_from_slice(row.as_ref()); i += 1; }
            bd2 = m(('call~', 'index_mut', ('$m', '$i')), dst)
            if bl and bd2 is not None and src[0] == 'elem' and norm(src[1]) == norm(bl['$it']):
                H = common.loop_counter_of(f, R, bd2['$i'])
                if H is not None and H == common.loop_of_elem(f, src):
                    ok = True
            if not ok:
                why = f'len={X.show(ln)} dst={X.show(dst)} src={X.show(src)}'
    if ok:
        n += 1
        ctx.ok('R19.5', f, 'from_rows: uninitialized(it.len()); every row i of enumerate(it) overwritten by copy_from_slice',
               ['same iterator gives the length and the rows', 'copy_from_slice panics on a length mismatch'])
    else:
        ctx.fail('R19.5', f, 'from_rows', 'reason=unrecognised-shape: ' + why)
    ctx.floor('R19.5', n, 4, 'flat view / fill / from_rows')


def r196(db, ctx):
    ctx.rule('R19.6', 'reserve(n) is self.data.reserve(n): the request is forwarded unchanged (it is a number of *additional* rows, and any n is valid)')
    fs = [f for f in db.fns.values() if f.path.startswith(DM + '::') and f.name == 'reserve' and not f.promoted_of and f.kind == 'AssocFn']
    if len(fs) != 1:
        ctx.fail('R19.6', DM, 'reserve', f'reason=anchor-missing: {len(fs)} bodies')
        return
    common.forwards(db, ctx, 'R19.6', fs[0], ['Vec::reserve', 'Vec::reserve_exact'], {0: ('fld', ('p', 1), dm_fields(db)['data']), 1: ('p', 2)}, 'DenseMatrix::reserve -> Vec::reserve')


def run(db, ctx):
    F = dm_fields(db)
    if not F:
        ctx.fail('R19.0', DM, 'struct shape', 'reason=anchor-missing: DenseMatrix is not {Vec<Row>, usize}')
        return
    r191(db, ctx, F)
    r192(db, ctx, F)
    r193(db, ctx, F)
    r194(db, ctx, F)
    r195(db, ctx, F)
    r196(db, ctx)


def storage_rules(db, ctx):
    """Row-count / row-vector pairing of every length change (R19.2) and the flat views (R19.5): shared into the properties whose buffers are
    DenseMatrix values that get resized and re-read (C02, C04, C06)."""
    F = dm_fields(db)
    if not F:
        ctx.fail('R19.0', DM, 'struct shape', 'reason=anchor-missing: DenseMatrix is not {Vec<Row>, usize}')
        return
    r192(db, ctx, F)
    r195(db, ctx, F)
